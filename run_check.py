#!/usr/bin/env python3
"""run_check.py <Cxx> [--tier quick|thorough] [--replay witness.json]
exit 0 = held on everything explored; 1 = violation (VIOLATION line); 2 = inconclusive / harness failure."""
import argparse
import json
import os
import shutil
import sys
import tempfile
import time

sys.path.insert(0, os.path.dirname(os.path.abspath(__file__)))
import vplib
import checks


def main():
    ap = argparse.ArgumentParser()
    ap.add_argument("prop")
    ap.add_argument("--tier", default=os.environ.get("VERIF_TIER", "quick"))
    ap.add_argument("--replay")
    ap.add_argument("--attempts", type=int, default=5)
    ap.add_argument("--keep", action="store_true")
    ap.add_argument("-v", action="store_true")
    a = ap.parse_args()
    seed = int(os.environ.get("VERIF_SEED", "1") or "1")
    tier = a.tier if a.tier in ("quick", "thorough") else "quick"
    t0 = time.time()
    tmp = tempfile.mkdtemp(prefix="vp_%s_" % a.prop, dir=os.environ.get("VP_TMP", "/tmp"))
    log = (lambda s: print(s, file=sys.stderr, flush=True)) if a.v else (lambda s: None)
    rc = 2
    try:
        b = vplib.Builder(tmp)
        if a.replay:
            w = json.load(open(a.replay))
            spec = checks.CHECKS[w["check"]]
            d = w["run"]
            binary = checks.BINARIES[d["binary"]]
            hits = 0
            for i in range(a.attempts):
                vplib.CANCEL.clear()
                r = vplib.Run(d["variant"], binary, d["args"], cpu=16, timeout=600)
                if d.get("tsan_rule"):
                    r.tsan_rule = d["tsan_rule"]
                if d.get("wrapper"):
                    r.wrapper = d["wrapper"]
                vplib.run_all([r], b, tmp, log=log)
                keys = [v["key"] for v in (r.result or {}).get("violations", [])]
                if r.outcome == "sanitizer":
                    keys.append(r.san_key)
                if r.outcome == "crash":
                    keys.append(vplib.crash_key(r))
                print("attempt %d: outcome=%s keys=%s" % (i + 1, r.outcome, keys))
                if w["key"] in keys:
                    hits += 1
            print("reproduced %d/%d" % (hits, a.attempts))
            rc = 1 if hits else 0
        else:
            spec = checks.CHECKS[a.prop]
            checks.CUR_TIER = tier
            plan = spec(tier, seed)
            vplib.run_all(plan["runs"], b, tmp, max_cpu=plan.get("max_cpu", 20), log=log)
            rc = vplib.finish_check(a.prop, tier, seed, plan["runs"], t0, plan["rule"], plan.get("min_events"),
                                    plan.get("assumptions", []), extra_cov=plan.get("extra_cov"),
                                    log=lambda s: print(s, flush=True))
    except vplib.HarnessFailure as e:
        print("harness failure: %s" % e, file=sys.stderr)
        rc = 2
    finally:
        if not a.keep:
            shutil.rmtree(tmp, ignore_errors=True)
    sys.exit(rc)


if __name__ == "__main__":
    main()
