#!/usr/bin/env python3
"""setup_cmd: nothing persistent is built (every check rebuilds from /repo in a private temp dir).
This only verifies the toolchain and runs the checker self-tests on synthetic bad histories."""
import os, subprocess, sys
here = os.path.dirname(os.path.abspath(__file__))
for tool in ("gcc", "python3"):
    if subprocess.run(["which", tool], capture_output=True).returncode != 0:
        print("missing tool", tool); sys.exit(1)
os.makedirs(os.path.join(here, "evidence"), exist_ok=True)
st = os.path.join(here, "selftest.py")
if os.path.exists(st):
    sys.exit(subprocess.run([sys.executable, st]).returncode)
print("setup ok")
