#include "ds_common.h"

_Atomic uint64_t vp_clock = 1;
ds_worker_t ds_w[DS_MAX_WORKERS];
int ds_nworkers;
int ds_hist = 1;

static pthread_barrier_t bar_start, bar_end;
static pthread_barrier_t* bar_line;
static pthread_barrier_t bar_lines[DS_MAX_WORKERS + 1];
static ds_round_fn cur_fn;
static int cur_active;
static volatile int stopping;

static void* worker_main(void* arg) {
  ds_worker_t* w = (ds_worker_t*)arg;
  (void)vp_tid();
  for (;;) {
    pthread_barrier_wait(&bar_start);
    if (stopping) break;
    if (w->id < cur_active) cur_fn(w);
    pthread_barrier_wait(&bar_end);
  }
  return NULL;
}

void ds_start_line(void) { pthread_barrier_wait(bar_line); }

void ds_run_round(int active, ds_round_fn fn) {
  if (active > ds_nworkers) active = ds_nworkers;
  cur_fn = fn;
  cur_active = active;
  bar_line = &bar_lines[active];
  pthread_barrier_wait(&bar_start);
  pthread_barrier_wait(&bar_end);
}

static vp_counter_t *c_hist, *c_hist_nontrivial, *c_ops;

void ds_history_begin(vp_hist_t* h, int active) {
  vp_log_t logs[DS_MAX_WORKERS];
  int i;
  for (i = 0; i < active; ++i) logs[i] = ds_w[i].log;
  vp_hist_merge(h, logs, active);
}

void ds_history_end(vp_hist_t* h, const char* ctx) {
  int nontrivial = 0;
  const uint64_t sig = vp_hist_signature(h, &nontrivial);
  vp_add(c_hist, 1);
  vp_add(c_ops, (long)h->n);
  if (nontrivial) {
    vp_add(c_hist_nontrivial, 1);
    vp_sig(sig);
  }
  static int sampled;
  if (sampled < 3 && h->n > 0) {
    // write out a slice of an actual history, starting where operations of different threads first overlap
    char buf[1600];
    size_t off = 0, i, start = 0;
    uint64_t maxret = 0;
    for (i = 0; i < h->n; ++i) {
      if (h->ops[i].inv < maxret) {
        start = i > 2 ? i - 2 : 0;
        break;
      }
      if (h->ops[i].ret > maxret) maxret = h->ops[i].ret;
    }
    off += snprintf(buf + off, sizeof(buf) - off, "%s: %zu ops; from op %zu (thread op result value invoked-returned): ", ctx, h->n, start);
    for (i = start; i < h->n && i < start + 22 && off < sizeof(buf) - 70; ++i) {
      const vp_op_t* o = &h->ops[i];
      off += snprintf(buf + off, sizeof(buf) - off, "[t%u %s %s %llx %llu-%llu] ", o->thr,
                      o->op == VP_OP_PUSH ? "push" : (o->op == VP_OP_POP ? "pop" : "steal"),
                      o->res == VP_RES_OK ? "ok" : (o->res == VP_RES_EMPTY ? "empty" : (o->res == VP_RES_ABORT ? "abort" : "fail")),
                      (unsigned long long)o->val, (unsigned long long)o->inv, (unsigned long long)o->ret);
    }
    vp_sample("%s", buf);
    ++sampled;
  }
  vp_hist_free(h);
  vp_progress();
  vp_case();
}

int main(int argc, char** argv) {
  vp_init(argc, argv);
  ds_hist = (int)vp_param("hist", vp_cfg.mode == VP_MODE_NOHOOK ? 0 : 1);
  ds_nworkers = vp_cfg.threads;
  if (ds_nworkers < 1) ds_nworkers = 1;
  if (ds_nworkers > DS_MAX_WORKERS) ds_nworkers = DS_MAX_WORKERS;
  c_hist = vp_counter("histories");
  c_hist_nontrivial = vp_counter("histories_with_overlap");
  c_ops = vp_counter("history_ops");
  vp_hook_install();
  vp_watchdog_start(0, NULL);

  int i;
  pthread_barrier_init(&bar_start, NULL, ds_nworkers + 1);
  pthread_barrier_init(&bar_end, NULL, ds_nworkers + 1);
  for (i = 1; i <= ds_nworkers; ++i) pthread_barrier_init(&bar_lines[i], NULL, i);
  pthread_t th[DS_MAX_WORKERS];
  for (i = 0; i < ds_nworkers; ++i) {
    ds_w[i].id = i;
    ds_w[i].rng = vp_mix(vp_cfg.seed, 77 + i);
    pthread_create(&th[i], NULL, worker_main, &ds_w[i]);
  }

  static const struct {
    const char* name;
    ds_sub_fn fn;
  } subs[] = {{"wsd", ds_sub_wsd},     {"mpmc", ds_sub_mpmc}, {"hazard", ds_sub_hazard}, {"mpsc", ds_sub_mpsc},
              {"spsc", ds_sub_spsc},   {"mpscr", ds_sub_mpscr}, {"ring", ds_sub_ring},   {"wq", ds_sub_wq},
              {"lifo", ds_sub_lifo},   {"dist", ds_sub_dist}, {"stack", ds_sub_stack},   {"selftest", ds_sub_selftest}};
  size_t k;
  int found = 0;
  for (k = 0; k < sizeof(subs) / sizeof(subs[0]); ++k)
    if (!strcmp(subs[k].name, vp_cfg.sub)) {
      subs[k].fn();
      found = 1;
    }
  if (!found) {
    fprintf(stderr, "unknown sub '%s'\n", vp_cfg.sub);
    return 2;
  }
  vp_mark_done();
  stopping = 1;
  pthread_barrier_wait(&bar_start);
  vp_finish();
}
