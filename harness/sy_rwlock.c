// C07: read/write lock.
#include "fb_common.h"
#include "fiber_rwlock.h"
// under TSan the harness-side occupancy counters must not themselves create happens-before edges between owners
#ifdef VP_TSAN
#define OCC_ORDER memory_order_relaxed
#else
#define OCC_ORDER memory_order_seq_cst
#endif
static long plain_shared;  // written by writers, read by readers
__attribute__((noinline)) static void vp_payload_rw_write(void) { plain_shared++; }
__attribute__((noinline)) static long vp_payload_rw_read(void) { return plain_shared; }

static fiber_rwlock_t rw;
static _Atomic int readers_in, writers_in;
static int iters, trial, writer_pct;
static vp_counter_t *c_rd, *c_wr, *c_tryrd_ok, *c_tryrd_fail, *c_trywr_ok, *c_trywr_fail, *c_trials, *c_maxreaders, *c_shared_reads;

static void* rw_fiber(void* a) {
  fb_slot_t* s = (fb_slot_t*)a;
  int i;
  for (i = 0; i < iters; ++i) {
    const int is_writer = (int)(vp_rand(&s->rng) % 100) < writer_pct;
    const int use_try = (vp_rand(&s->rng) % 4) == 0;
    int got = 0;
    if (use_try) {
      const uint64_t sw = vp_self_switches();
      const int ok = is_writer ? fiber_rwlock_trywrlock(&rw) : fiber_rwlock_tryrdlock(&rw);
      if (vp_self_switches() != sw)
        vp_violation("C07", "rwlock:try-blocked", "trial %d: fiber %d was context-switched inside a try-lock call", trial, s->id);
      got = ok == FIBER_SUCCESS;
      vp_add(is_writer ? (got ? c_trywr_ok : c_trywr_fail) : (got ? c_tryrd_ok : c_tryrd_fail), 1);
    }
    if (!got) {
      if (is_writer) FB_BLOCKING(s, "C07 fiber_rwlock_wrlock", fiber_rwlock_wrlock(&rw));
      else FB_BLOCKING(s, "C07 fiber_rwlock_rdlock", fiber_rwlock_rdlock(&rw));
    }
    if (is_writer) {
      const int w = atomic_fetch_add_explicit(&writers_in, 1, OCC_ORDER);
      const int r = atomic_load_explicit(&readers_in, OCC_ORDER);
      if (w != 0 || r != 0)
        vp_violation("C07", "rwlock:writer-not-alone", "trial %d: writer fiber %d holds the lock (%s) together with %d writer(s) and %d reader(s)", trial,
                     s->id, got ? "trywrlock" : "wrlock", w, r);
      vp_payload_rw_write();
      if ((vp_rand(&s->rng) & 7) == 0) fiber_yield();
      else fb_spin(&s->rng, 50);
      if (atomic_load_explicit(&readers_in, OCC_ORDER) != 0)
        vp_violation("C07", "rwlock:reader-joined-writer", "trial %d: %d reader(s) entered while writer fiber %d holds the lock", trial, atomic_load_explicit(&readers_in, OCC_ORDER), s->id);
      atomic_fetch_sub_explicit(&writers_in, 1, OCC_ORDER);
      vp_add(c_wr, 1);
      FB_BLOCKING(s, "C07 fiber_rwlock_wrunlock", fiber_rwlock_wrunlock(&rw));
    } else {
      const int r = atomic_fetch_add_explicit(&readers_in, 1, OCC_ORDER) + 1;
      vp_max(c_maxreaders, r);
      if (r > 1) vp_add(c_shared_reads, 1);
      const int w = atomic_load_explicit(&writers_in, OCC_ORDER);
      if (w != 0)
        vp_violation("C07", "rwlock:reader-with-writer", "trial %d: reader fiber %d holds the lock (%s) while %d writer(s) are inside", trial, s->id,
                     got ? "tryrdlock" : "rdlock", w);
      const long seen = vp_payload_rw_read();
      if ((vp_rand(&s->rng) & 7) == 0) fiber_yield();
      else fb_spin(&s->rng, 50);
      if (vp_payload_rw_read() != seen)
        vp_violation("C07", "rwlock:write-during-read", "trial %d: shared data changed while reader fiber %d holds the lock", trial, s->id);
      atomic_fetch_sub_explicit(&readers_in, 1, OCC_ORDER);
      vp_add(c_rd, 1);
      FB_BLOCKING(s, "C07 fiber_rwlock_rdunlock", fiber_rwlock_rdunlock(&rw));
    }
    if ((vp_rand(&s->rng) & 3) == 0) fiber_yield();
  }
  return NULL;
}

// hammer: tight loops (no delays between operations) so that three-party races inside the lock-word updates, which have
// no hook point, get a chance; writers also poll with trywrlock to grab the lock the moment it frees
static void* rw_hammer_reader(void* a) {
  fb_slot_t* s = (fb_slot_t*)a;
  long i;
  for (i = 0; i < (long)iters * 150; ++i) {
    FB_BLOCKING(s, "C07 fiber_rwlock_rdlock", fiber_rwlock_rdlock(&rw));
    const int r = atomic_fetch_add_explicit(&readers_in, 1, OCC_ORDER) + 1;
    vp_max(c_maxreaders, r);
    const int w = atomic_load_explicit(&writers_in, OCC_ORDER);
    if (w != 0) vp_violation("C07", "rwlock:reader-with-writer", "trial %d (hammer): reader fiber %d holds the lock while %d writer(s) are inside", trial, s->id, w);
    const long seen = vp_payload_rw_read();
    if (vp_payload_rw_read() != seen) vp_violation("C07", "rwlock:write-during-read", "trial %d (hammer): shared data changed while reader fiber %d holds the lock", trial, s->id);
    atomic_fetch_sub_explicit(&readers_in, 1, OCC_ORDER);
    vp_add(c_rd, 1);
    FB_BLOCKING(s, "C07 fiber_rwlock_rdunlock", fiber_rwlock_rdunlock(&rw));
  }
  return NULL;
}
static void* rw_hammer_writer(void* a) {
  fb_slot_t* s = (fb_slot_t*)a;
  long i;
  for (i = 0; i < (long)iters * 30; ++i) {
    int got = 0, tries = 0;
    while (!got && tries++ < 200) {
      got = fiber_rwlock_trywrlock(&rw) == FIBER_SUCCESS;
      vp_add(got ? c_trywr_ok : c_trywr_fail, 1);
      if (!got && (tries & 15) == 0) fiber_yield();
    }
    if (!got) FB_BLOCKING(s, "C07 fiber_rwlock_wrlock", fiber_rwlock_wrlock(&rw));
    const int w = atomic_fetch_add_explicit(&writers_in, 1, OCC_ORDER);
    const int r = atomic_load_explicit(&readers_in, OCC_ORDER);
    if (w != 0 || r != 0)
      vp_violation("C07", "rwlock:writer-not-alone", "trial %d (hammer): writer fiber %d holds the lock (%s) together with %d writer(s) and %d reader(s)", trial, s->id,
                   got ? "trywrlock" : "wrlock", w, r);
    vp_payload_rw_write();
    if (atomic_load_explicit(&readers_in, OCC_ORDER) != 0)
      vp_violation("C07", "rwlock:reader-joined-writer", "trial %d (hammer): %d reader(s) entered while writer fiber %d holds the lock", trial, atomic_load_explicit(&readers_in, OCC_ORDER), s->id);
    atomic_fetch_sub_explicit(&writers_in, 1, OCC_ORDER);
    vp_add(c_wr, 1);
    FB_BLOCKING(s, "C07 fiber_rwlock_wrunlock", fiber_rwlock_wrunlock(&rw));
    if ((i & 7) == 0) fiber_yield();
  }
  return NULL;
}

// crowd trials: the lock already has P read holders (taken before the trial, released after it; P just below a power of two from
// 2^15 to 2^20) and R more readers pile in and stay inside together, so the holder count crosses that power of two. Only the try
// variant is used for writing: with readers inside it must fail every time, however many they are.
static _Atomic int crowd_inside, crowd_readers_left;
static int crowd_R;
static long crowd_P;
static void* rw_crowd_reader(void* a) {
  fb_slot_t* s = (fb_slot_t*)a;
  int i;
  for (i = 0; i < 2; ++i) {
    if (vp_rand(&s->rng) & 1) {
      FB_BLOCKING(s, "C07 fiber_rwlock_rdlock", fiber_rwlock_rdlock(&rw));
    } else {
      atomic_store(&s->where, "C07 fiber_rwlock_tryrdlock (readers only: must succeed eventually)");
      while (fiber_rwlock_tryrdlock(&rw) != FIBER_SUCCESS) {
        vp_add(c_tryrd_fail, 1);
        fiber_yield();
      }
      atomic_store(&s->where, (const char*)0);
    }
    atomic_fetch_add(&crowd_inside, 1);
    int spins = 0;
    // stay inside until (almost) everybody is inside too
    while (atomic_load(&crowd_inside) < crowd_R - 2 && ++spins < 150) fiber_yield();
    vp_max(c_maxreaders, crowd_P + atomic_load(&crowd_inside));
    fiber_yield();
    atomic_fetch_sub(&crowd_inside, 1);
    fiber_rwlock_rdunlock(&rw);
    vp_add(c_rd, 1);
    spins = 0;
    while (atomic_load(&crowd_inside) > 2 && ++spins < 150) fiber_yield();
  }
  atomic_fetch_sub(&crowd_readers_left, 1);
  return NULL;
}
static void* rw_crowd_trywriter(void* a) {
  fb_slot_t* s = (fb_slot_t*)a;
  while (atomic_load(&crowd_readers_left) > 0) {
    const uint64_t sw = vp_self_switches();
    const int ok = fiber_rwlock_trywrlock(&rw);
    if (vp_self_switches() != sw) vp_violation("C07", "rwlock:try-blocked", "trial %d (crowd): fiber %d was context-switched inside trywrlock", trial, s->id);
    if (ok == FIBER_SUCCESS) {
      vp_violation("C07", "rwlock:writer-with-readers", "trial %d (crowd): trywrlock succeeded while %ld earlier read holders plus %d of %d crowd readers hold the lock", trial, crowd_P,
                   atomic_load(&crowd_inside), crowd_R);
      break;
    }
    vp_add(c_trywr_fail, 1);
    fiber_yield();
    vp_progress();
  }
  return NULL;
}

void* sy_rwlock_root(void* x) {
  (void)x;
  const int trials = (int)vp_param("trials", 30);
  const int maxf = (int)vp_param("maxf", 48);
  iters = (int)vp_param("iters", 60);
  c_rd = vp_counter("rw_read_sections");
  c_wr = vp_counter("rw_write_sections");
  c_tryrd_ok = vp_counter("rw_tryrd_ok");
  c_tryrd_fail = vp_counter("rw_tryrd_fail");
  c_trywr_ok = vp_counter("rw_trywr_ok");
  c_trywr_fail = vp_counter("rw_trywr_fail");
  c_trials = vp_counter("rw_trials");
  c_maxreaders = vp_counter("rw_max_concurrent_readers");
  c_shared_reads = vp_counter("rw_read_sections_shared_with_other_readers");
  uint64_t rng = vp_mix(vp_cfg.seed, 707);
  static const int pcts[] = {50, 25, 10, 5};
  for (trial = 0; trial < trials; ++trial) {
    const int F = 2 + (int)(vp_rand(&rng) % (unsigned)(maxf - 1));
    writer_pct = pcts[vp_rand(&rng) % 4];
    fiber_rwlock_init(&rw);
    atomic_store(&readers_in, 0);
    atomic_store(&writers_in, 0);
    fiber_manager_stats_t st0, st1;
    fiber_manager_all_stats(&st0);
    fb_slots_reset();
    fb_slot_t* sl[256];
    int i;
    int nf = F;
    const int crowd = (trial % 5) == 4;
    if (crowd) {
      crowd_R = 30 + (int)(vp_rand(&rng) % 70);
      crowd_P = (1L << (15 + (int)(vp_rand(&rng) % 6))) - 20;
      rw.state.state.reader_count = (unsigned)crowd_P;  // P read holds taken before the trial
      atomic_store(&crowd_inside, 0);
      atomic_store(&crowd_readers_left, crowd_R);
      nf = 0;
      for (i = 0; i < crowd_R; ++i) sl[nf++] = fb_spawn(rw_crowd_reader, NULL);
      for (i = 0; i < 3; ++i) sl[nf++] = fb_spawn(rw_crowd_trywriter, NULL);
      vp_count("rw_crowd_trials", 1);
    } else if (trial % 3 == 2) {
      const int R = 4 + (int)(vp_rand(&rng) % 40), W = 1 + (int)(vp_rand(&rng) % 8);
      nf = 0;
      for (i = 0; i < R; ++i) sl[nf++] = fb_spawn(rw_hammer_reader, NULL);
      for (i = 0; i < W; ++i) sl[nf++] = fb_spawn(rw_hammer_writer, NULL);
      vp_count("rw_hammer_trials", 1);
    } else {
      for (i = 0; i < F; ++i) sl[i] = fb_spawn(rw_fiber, NULL);
    }
    fb_join_all(sl, nf);
    fiber_manager_all_stats(&st1);
    if (crowd) {
      if (rw.state.state.reader_count != (unsigned)crowd_P || rw.state.state.write_locked || rw.state.state.waiting_readers || rw.state.state.waiting_writers)
        vp_violation("C07", "rwlock:state-nonzero-at-end", "trial %d (crowd): all crowd readers left but state is write_locked=%u readers=%u (expected the %ld earlier holders) waiting_readers=%u waiting_writers=%u",
                     trial, rw.state.state.write_locked, rw.state.state.reader_count, crowd_P, rw.state.state.waiting_readers, rw.state.state.waiting_writers);
      rw.state.blob = 0;  // the earlier holders release
    }
    if (rw.state.blob != 0)
      vp_violation("C07", "rwlock:state-nonzero-at-end", "trial %d: nobody holds or waits but state is write_locked=%u readers=%u waiting_readers=%u waiting_writers=%u",
                   trial, rw.state.state.write_locked, rw.state.state.reader_count, rw.state.state.waiting_readers, rw.state.state.waiting_writers);
    vp_count("lib_wake_mpsc_spin_count", (long)(st1.wake_mpsc_spin_count - st0.wake_mpsc_spin_count));
    vp_sig(vp_mix(((uint64_t)F << 8) | (uint64_t)writer_pct, (uint64_t)vp_get(c_shared_reads) * 31 + (uint64_t)vp_get(c_trywr_fail)));
    if (trial < 2) vp_sample("rwlock trial %d: %d fibers x %d ops, %d%% writers, max concurrent readers so far %ld", trial, F, iters, writer_pct, vp_get(c_maxreaders));
    fiber_rwlock_destroy(&rw);
    vp_add(c_trials, 1);
    vp_case();
    if (vp_violation_count()) break;
  }
  return NULL;
}
