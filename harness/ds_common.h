// pthread-only harness for the lock-free containers: worker pool + per-round configuration
#ifndef DS_COMMON_H
#define DS_COMMON_H
#define _GNU_SOURCE
#include <pthread.h>

#include "vp_hist.h"
#include "vp_rt.h"

#define DS_MAX_WORKERS 32

typedef struct ds_worker {
  int id;
  uint64_t rng;
  vp_log_t log;
  void* priv;
  char pad[64];
} ds_worker_t;

extern ds_worker_t ds_w[DS_MAX_WORKERS];
extern int ds_nworkers;  // pool size
extern int ds_hist;      // record stamped histories (0 in raw mode: no stamps, no extra fences)

typedef void (*ds_round_fn)(ds_worker_t* w);
// run fn on workers [0, active) in parallel; returns when all are done
void ds_run_round(int active, ds_round_fn fn);
// start line inside a round so that all active workers begin together
void ds_start_line(void);

typedef void (*ds_sub_fn)(void);
void ds_sub_wsd(void);
void ds_sub_mpmc(void);
void ds_sub_hazard(void);
void ds_sub_mpsc(void);
void ds_sub_spsc(void);
void ds_sub_mpscr(void);
void ds_sub_ring(void);
void ds_sub_wq(void);
void ds_sub_lifo(void);
void ds_sub_dist(void);
void ds_sub_stack(void);
void ds_sub_selftest(void);

// merged-history helper: merge logs of workers [0,active), compute signature, count evaluations
void ds_history_begin(vp_hist_t* h, int active);
void ds_history_end(vp_hist_t* h, const char* sample_ctx);

static inline void ds_tiny_delay(uint64_t* rng, unsigned max_spins) {
  unsigned n = (unsigned)(vp_rand(rng) % (max_spins + 1));
  while (n--) __asm__ __volatile__("pause" ::: "memory");
}

#endif
