// C01 / C02(b): seeded random programs over the whole public API on the real runtime. The oracles are the ghost
// monitor (running-on map, pending wake-ups, reclaim rules), the library's own asserts (dbg), ASan on heap stacks,
// and logical quiescence. Every blocking action is generated together with its releaser (give before take), so
// every fiber is entitled to finish.
#include <sys/socket.h>

#include "fb_common.h"
#include "fiber_barrier.h"
#include "fiber_channel.h"
#include "fiber_cond.h"
#undef _FIBER_CHANNEL_H_  // both channel headers use the same include guard
#include "fiber_multi_channel.h"
#include "fiber_rwlock.h"
#include "fiber_semaphore.h"

#define NMU 2
#define NSEM 2
#define NCH 2
#define CLIQUE 4

static fiber_mutex_t mu[NMU];
static long mu_payload[NMU];
static fiber_semaphore_t sem[NSEM];
static fiber_rwlock_t rw;
static fiber_mutex_t tk_mu;
static fiber_cond_t tk_cv;
static long tickets;
static fiber_multi_channel_t* mch;
static fiber_signal_t ch_sig[NCH];
static fiber_unbounded_channel_t uch[NCH];
static fiber_bounded_channel_t* bch[NCH];
static fiber_signal_t bch_sig[NCH];
static fiber_barrier_t clique_bar[64];
static _Atomic long uch_expected[NCH], bch_expected[NCH];
static _Atomic long senders_left;
static int steps, trial, F;
static int use_io, use_sleep;
static vp_counter_t* c_act[16];
static vp_counter_t *c_trials, *c_programs;
static const char* const act_names[16] = {"act_yield",      "act_mutex",       "act_sem_post_wait", "act_rwlock",     "act_cond_ticket", "act_multi_channel",
                                          "act_unbounded_send", "act_bounded_send", "act_create_join",   "act_create_detach", "act_sleep",      "act_socketpair_io",
                                          "act_barrier_round", "act_tryjoin_poll", "act_trylocks",      "act_spare"};
static _Atomic long detached_done, detached_started;

static void* child_short(void* a) {
  uint64_t r = (uint64_t)(uintptr_t)a | 1;
  if (vp_rand(&r) & 1) fiber_yield();
  return a;
}
static void* child_detached(void* a) {
  (void)a;
  fiber_yield();
  atomic_fetch_add(&detached_done, 1);
  return NULL;
}

// a legitimate history that leaves traces in the fiber: a blocking read ended by another fiber closing the descriptor
static void* rt_closer(void* a) {
  usleep(1500);
  close((int)(intptr_t)a);
  return NULL;
}
static void interrupted_read(fb_slot_t* s) {
  int sv[2];
  if (socketpair(AF_UNIX, SOCK_STREAM, 0, sv)) return;
  fiber_t* c = fiber_create(FB_STACK / 2, rt_closer, (void*)(intptr_t)sv[0]);
  char b[4];
  ssize_t r = 0;
  FB_BLOCKING(s, "C01 read (ended by close in another fiber)", r = read(sv[0], b, sizeof(b)));
  (void)r;
  fiber_join(c, NULL);
  close(sv[1]);
  vp_count("act_close_interrupted_read", 1);
}

typedef struct {
  int clique;  // -1 none
  int sv[2];
} wctx_t;
static wctx_t wctx[512];

static void* worker(void* a) {
  fb_slot_t* s = (fb_slot_t*)a;
  wctx_t* w = &wctx[s->c % 512];
  int i;
  for (i = 0; i < steps; ++i) {
    unsigned act = (unsigned)(vp_rand(&s->rng) % 15);
    if (act == 10 && !use_sleep) act = 0;
    if (act == 11 && (!use_io || w->sv[0] < 0)) act = 1;
    if (act == 12 && w->clique < 0) act = 2;
    vp_add(c_act[act], 1);
    switch (act) {
      case 0:
        if (use_io && (vp_rand(&s->rng) & 15) == 0) interrupted_read(s);
        fiber_yield();
        break;
      case 1: {
        const int m = (int)(vp_rand(&s->rng) % NMU);
        FB_BLOCKING(s, "C01 fiber_mutex_lock", fiber_mutex_lock(&mu[m]));
        const long v = mu_payload[m];
        if (vp_rand(&s->rng) % 8 == 0) fiber_yield();
        mu_payload[m] = v + 1;
        fiber_mutex_unlock(&mu[m]);
        break;
      }
      case 2: {
        const int k = (int)(vp_rand(&s->rng) % NSEM);
        fiber_semaphore_post(&sem[k]);
        FB_BLOCKING(s, "C01 fiber_semaphore_wait", fiber_semaphore_wait(&sem[k]));
        break;
      }
      case 3:
        if (vp_rand(&s->rng) % 4 == 0) {
          FB_BLOCKING(s, "C01 fiber_rwlock_wrlock", fiber_rwlock_wrlock(&rw));
          fiber_rwlock_wrunlock(&rw);
        } else {
          FB_BLOCKING(s, "C01 fiber_rwlock_rdlock", fiber_rwlock_rdlock(&rw));
          if (vp_rand(&s->rng) % 4 == 0) fiber_yield();
          fiber_rwlock_rdunlock(&rw);
        }
        break;
      case 4:
        // give a ticket, then take one
        fiber_mutex_lock(&tk_mu);
        tickets++;
        fiber_cond_signal(&tk_cv);
        fiber_mutex_unlock(&tk_mu);
        FB_BLOCKING(s, "C01 fiber_mutex_lock", fiber_mutex_lock(&tk_mu));
        while (tickets == 0) FB_BLOCKING(s, "C01 fiber_cond_wait", fiber_cond_wait(&tk_cv, &tk_mu));
        tickets--;
        fiber_mutex_unlock(&tk_mu);
        break;
      case 5:
        FB_BLOCKING(s, "C01 fiber_multi_channel_send", fiber_multi_channel_send(mch, (void*)(uintptr_t)(s->id + 1)));
        FB_BLOCKING(s, "C01 fiber_multi_channel_receive", (void)fiber_multi_channel_receive(mch));
        break;
      case 6: {
        const int c = (int)(vp_rand(&s->rng) % NCH);
        fiber_unbounded_channel_message_t* m = (fiber_unbounded_channel_message_t*)malloc(sizeof(*m));
        m->data = (void*)(uintptr_t)(s->id + 1);
        atomic_fetch_add(&uch_expected[c], 1);
        fiber_unbounded_channel_send(&uch[c], m);
        break;
      }
      case 7: {
        const int c = (int)(vp_rand(&s->rng) % NCH);
        atomic_fetch_add(&bch_expected[c], 1);
        FB_BLOCKING(s, "C01 fiber_bounded_channel_send", fiber_bounded_channel_send(bch[c], (void*)(uintptr_t)(s->id + 1)));
        break;
      }
      case 8: {
        void* tok = (void*)(uintptr_t)(vp_rand(&s->rng) | 1);
        fiber_t* f = fiber_create(FB_STACK / 2, child_short, tok);
        void* res = NULL;
        int ok = 0;
        FB_BLOCKING(s, "C01 fiber_join", ok = fiber_join(f, &res));
        if (ok != FIBER_SUCCESS || res != tok)
          vp_violation("C04", "rt:join-result", "trial %d: join of a child returned %d with result %p, expected %p", trial, ok, res, tok);
        break;
      }
      case 9: {
        fiber_t* f = fiber_create(FB_STACK / 2, child_detached, NULL);
        atomic_fetch_add(&detached_started, 1);
        fiber_detach(f);
        break;
      }
      case 10:
        FB_BLOCKING(s, "C01 fiber_sleep", fiber_sleep(0, (uint32_t)(vp_rand(&s->rng) % 3000)));
        break;
      case 11: {
        char buf[64], in[64];
        const size_t n = 1 + (size_t)(vp_rand(&s->rng) % 64);
        memset(buf, (int)(s->id & 0x7f), n);
        ssize_t wr = 0, rd = 0;
        FB_BLOCKING(s, "C01 write(socketpair)", wr = write(w->sv[0], buf, n));
        size_t got = 0;
        while (wr > 0 && got < (size_t)wr) {
          FB_BLOCKING(s, "C01 read(socketpair)", rd = read(w->sv[1], in + got, (size_t)wr - got));
          if (rd <= 0) break;
          got += (size_t)rd;
        }
        if (wr != (ssize_t)n || got != n || memcmp(buf, in, n))
          vp_violation("C08", "rt:socketpair-echo", "trial %d: wrote %zd of %zu bytes, read back %zu", trial, wr, n, got);
        break;
      }
      case 12:
        FB_BLOCKING(s, "C01 fiber_barrier_wait", fiber_barrier_wait(&clique_bar[w->clique]));
        // all members execute the same number of rounds: compensate at the end (see below)
        s->b++;
        break;
      case 13: {
        fiber_t* f = fiber_create(FB_STACK / 2, child_short, (void*)(uintptr_t)77);
        void* res = NULL;
        atomic_store(&s->where, "C01 fiber_tryjoin polling");
        while (fiber_tryjoin(f, &res) != FIBER_SUCCESS) fiber_yield();
        atomic_store(&s->where, (const char*)0);
        if (res != (void*)(uintptr_t)77) vp_violation("C04", "rt:tryjoin-result", "trial %d: tryjoin returned result %p", trial, res);
        break;
      }
      case 14: {
        const int m = (int)(vp_rand(&s->rng) % NMU);
        if (fiber_mutex_trylock(&mu[m]) == FIBER_SUCCESS) {
          mu_payload[m]++;
          fiber_mutex_unlock(&mu[m]);
        }
        if (fiber_semaphore_trywait(&sem[0]) == FIBER_SUCCESS) fiber_semaphore_post(&sem[0]);
        if (fiber_rwlock_tryrdlock(&rw) == FIBER_SUCCESS) fiber_rwlock_rdunlock(&rw);
        break;
      }
    }
    vp_progress();
  }
  // clique members top up to the common number of barrier rounds
  if (w->clique >= 0) {
    while (s->b < steps) {
      FB_BLOCKING(s, "C01 fiber_barrier_wait", fiber_barrier_wait(&clique_bar[w->clique]));
      s->b++;
    }
  }
  atomic_fetch_sub(&senders_left, 1);
  return NULL;
}

// one receiver per single-consumer channel; stops when all senders are done and everything sent was received
static void* ureceiver(void* a) {
  fb_slot_t* s = (fb_slot_t*)a;
  const int c = (int)s->c;
  long got = 0;
  for (;;) {
    if (use_io && (vp_rand(&s->rng) & 63) == 0) interrupted_read(s);
    fiber_unbounded_channel_message_t* m = fiber_unbounded_channel_try_receive(&uch[c]);
    if (m) {
      free(m);
      ++got;
      continue;
    }
    if (atomic_load(&senders_left) == 0 && got == atomic_load(&uch_expected[c])) break;
    if (vp_rand(&s->rng) & 1) {
      // blocking receive only when a message is certainly coming or present
      if (got < atomic_load(&uch_expected[c])) {
        FB_BLOCKING(s, "C01 fiber_unbounded_channel_receive", m = fiber_unbounded_channel_receive(&uch[c]));
        free(m);
        ++got;
      } else {
        fiber_yield();
      }
    } else {
      fiber_yield();
    }
  }
  return NULL;
}
static void* breceiver(void* a) {
  fb_slot_t* s = (fb_slot_t*)a;
  const int c = (int)s->c;
  long got = 0;
  for (;;) {
    void* m = NULL;
    if (use_io && (vp_rand(&s->rng) & 63) == 0) interrupted_read(s);
    if (fiber_bounded_channel_try_receive(bch[c], &m)) {
      ++got;
      continue;
    }
    if (atomic_load(&senders_left) == 0 && got == atomic_load(&bch_expected[c])) break;
    if (got < atomic_load(&bch_expected[c]) && (vp_rand(&s->rng) & 1)) {
      FB_BLOCKING(s, "C01 fiber_bounded_channel_receive", m = fiber_bounded_channel_receive(bch[c]));
      ++got;
    } else {
      fiber_yield();
    }
  }
  return NULL;
}

static void* root(void* x) {
  (void)x;
  const int trials = (int)vp_param("trials", 10);
  const int maxf = (int)vp_param("maxf", 120);
  use_io = (int)vp_param("io", 1);
  use_sleep = (int)vp_param("sleep", 1);
  int i;
  for (i = 0; i < 16; ++i) c_act[i] = vp_counter(act_names[i]);
  c_trials = vp_counter("rt_programs");
  uint64_t rng = vp_mix(vp_cfg.seed, 101);
  for (trial = 0; trial < trials; ++trial) {
    F = 8 + (int)(vp_rand(&rng) % (unsigned)(maxf - 7));
    steps = 10 + (int)(vp_rand(&rng) % (unsigned)vp_param("steps", 50));
    for (i = 0; i < NMU; ++i) {
      fiber_mutex_init(&mu[i]);
      mu_payload[i] = 0;
    }
    for (i = 0; i < NSEM; ++i) fiber_semaphore_init(&sem[i], (int)(vp_rand(&rng) % 3));
    fiber_rwlock_init(&rw);
    fiber_mutex_init(&tk_mu);
    fiber_cond_init(&tk_cv);
    tickets = 0;
    mch = fiber_multi_channel_create(1 + (uint32_t)(vp_rand(&rng) % 3));
    for (i = 0; i < NCH; ++i) {
      fiber_signal_init(&ch_sig[i]);
      fiber_unbounded_channel_init(&uch[i], &ch_sig[i]);
      fiber_signal_init(&bch_sig[i]);
      bch[i] = fiber_bounded_channel_create(1 + (uint32_t)(vp_rand(&rng) % 4), &bch_sig[i]);
      atomic_store(&uch_expected[i], 0);
      atomic_store(&bch_expected[i], 0);
    }
    const int ncl = F / 16;  // a few cliques of CLIQUE fibers each share a barrier
    for (i = 0; i < ncl && i < 64; ++i) fiber_barrier_init(&clique_bar[i], CLIQUE);
    atomic_store(&senders_left, F);
    atomic_store(&detached_started, 0);
    atomic_store(&detached_done, 0);
    fb_slots_reset();
    static fb_slot_t* sl[1024];
    int n = 0;
    for (i = 0; i < NCH; ++i) {
      sl[n++] = fb_spawn(ureceiver, (void*)(intptr_t)i);
      sl[n++] = fb_spawn(breceiver, (void*)(intptr_t)i);
    }
    for (i = 0; i < F; ++i) {
      wctx_t* w = &wctx[i % 512];
      w->clique = (i < ncl * CLIQUE && i / CLIQUE < 64) ? i / CLIQUE : -1;
      w->sv[0] = w->sv[1] = -1;
      if (use_io && i % 4 == 0) {
        if (socketpair(AF_UNIX, SOCK_STREAM, 0, w->sv) != 0) w->sv[0] = w->sv[1] = -1;
      }
      sl[n++] = fb_spawn(worker, (void*)(intptr_t)i);
    }
    fb_join_all(sl, n);
    // wait (by yielding) for detached children; they are entitled to finish as well
    atomic_store(&fb_slots[0].where, "C01 detached children completion");
    atomic_store(&fb_slots[0].finished, 0);
    while (atomic_load(&detached_done) < atomic_load(&detached_started)) fiber_yield();
    atomic_store(&fb_slots[0].where, (const char*)0);
    atomic_store(&fb_slots[0].finished, 1);
    for (i = 0; i < 512; ++i) {
      if (wctx[i].sv[0] >= 0) {
        close(wctx[i].sv[0]);
        close(wctx[i].sv[1]);
        wctx[i].sv[0] = wctx[i].sv[1] = -1;
      }
    }
    if (tickets != 0) vp_violation("C05", "rt:tickets", "trial %d: %ld tickets left although every give was followed by a take", trial, tickets);
    for (i = 0; i < NMU; ++i) fiber_mutex_destroy(&mu[i]);
    for (i = 0; i < NSEM; ++i) fiber_semaphore_destroy(&sem[i]);
    fiber_rwlock_destroy(&rw);
    fiber_cond_destroy(&tk_cv);
    fiber_mutex_destroy(&tk_mu);
    fiber_multi_channel_destroy(mch);
    for (i = 0; i < NCH; ++i) {
      fiber_unbounded_channel_destroy(&uch[i]);
      fiber_bounded_channel_destroy(bch[i]);
    }
    for (i = 0; i < ncl && i < 64; ++i) fiber_barrier_destroy(&clique_bar[i]);
    // the signature of a program run: which suspend kinds x waker placements were seen so far, plus its shape
    vp_sig(vp_mix(((uint64_t)F << 16) | (uint64_t)steps, (uint64_t)vp_get(vp_counter("saving_skips")) * 131 + (uint64_t)vp_get(vp_counter("wakeups_before_switch_completed")) * 7 +
                                                            (uint64_t)vp_get(vp_counter("steals"))));
    if (trial < 2)
      vp_sample("program %d: %d worker fibers x %d random actions (menu: %s ... ), %d barrier cliques, %d kernel threads", trial, F, steps,
                "yield, mutex, sem post/wait, rwlock, cond ticket, multi-channel, channel sends, create/join, create/detach, sleep, socketpair echo, barrier, tryjoin poll, try-locks",
                ncl, vp_cfg.threads);
    vp_add(c_trials, 1);
    vp_case();
    if (vp_violation_count()) break;
  }
  return NULL;
}

int main(int argc, char** argv) { return fb_main(argc, argv, root); }
