// C05: condition variable with a credit ledger kept under the user mutex (no predicate loops: they would mask
// lost signals and spurious releases).
#include "fb_common.h"
#include "fiber_cond.h"
// under TSan the harness-side occupancy counters must not themselves create happens-before edges between owners
#ifdef VP_TSAN
#define OCC_ORDER memory_order_relaxed
#else
#define OCC_ORDER memory_order_seq_cst
#endif
static long pay_a, pay_b;  // plain payload protected only by the user mutex (TSan judges races between vp_payload_* frames)
__attribute__((noinline)) static void vp_payload_cond_section(int id, int trial_) {
  if (pay_a != pay_b) vp_violation("C05", "cond:payload-torn", "trial %d: fiber %d owns the user mutex and sees payload %ld/%ld", trial_, id, pay_a, pay_b);
  pay_a++;
  pay_b++;
}

static fiber_mutex_t mu;
static fiber_cond_t cv;
static _Atomic int occ;
// ledger, protected by mu
static long waiting, credits, entered_total, returned_total;
static long target_waits;
static int waits_per_fiber, trial, signal_outside_mutex;
static long bc_hist[5];
static vp_counter_t *c_waits, *c_signals, *c_broadcasts, *c_signal_nowaiter, *c_trials, *c_bc_released;

static void enter_section(fb_slot_t* s, const char* how) {
  const int prev = atomic_fetch_add_explicit(&occ, 1, OCC_ORDER);
  if (prev != 0)
    vp_violation("C05", "cond:mutex-not-owned", "trial %d: fiber %d %s while %d other fiber(s) hold the user mutex", trial, s->id, how, prev);
  vp_payload_cond_section(s->id, trial);
}
static void leave_section(void) { atomic_fetch_sub_explicit(&occ, 1, OCC_ORDER); }

static void* waiter_fiber(void* a) {
  fb_slot_t* s = (fb_slot_t*)a;
  int i;
  for (i = 0; i < waits_per_fiber; ++i) {
    FB_BLOCKING(s, "C05 fiber_mutex_lock(user mutex)", fiber_mutex_lock(&mu));
    enter_section(s, "locked");
    waiting++;
    entered_total++;
    leave_section();
    FB_BLOCKING(s, "C05 fiber_cond_wait", fiber_cond_wait(&cv, &mu));
    enter_section(s, "returned from fiber_cond_wait");
    if (!signal_outside_mutex) credits--;
    returned_total++;
    if (credits < 0)
      vp_violation("C05", "cond:released-without-signal", "trial %d: fiber %d returned from fiber_cond_wait although every signal/broadcast issued so far had already released another waiter (credits=%ld)",
                   trial, s->id, credits);
    vp_add(c_waits, 1);
    leave_section();
    fiber_mutex_unlock(&mu);
    if ((vp_rand(&s->rng) & 3) == 0) fiber_yield();  // otherwise: re-wait immediately
  }
  return NULL;
}

static void* signaller_fiber(void* a) {
  fb_slot_t* s = (fb_slot_t*)a;
  for (;;) {
    FB_BLOCKING(s, "C05 fiber_mutex_lock(user mutex)", fiber_mutex_lock(&mu));
    enter_section(s, "locked");
    if (signal_outside_mutex) {
      // weak mode: signals are issued after the mutex was released, so which wait a signal releases is not
      // determined by the ledger; only mutex ownership on return and bounded progress are judged
      const int all_returned = returned_total == target_waits;
      const long in_wait = entered_total - returned_total;
      const long ret_now = returned_total, ent_now = entered_total;
      leave_section();
      fiber_mutex_unlock(&mu);
      if (all_returned) break;
      // bounded progress instead of "eventually": with the same fibers inside fiber_cond_wait before and after, two
      // million consecutive signal/broadcast calls that release nobody mean the signals are being lost
      if (ret_now == s->a && ent_now == s->b && in_wait > 0) {
        if (++s->c > 2000000) {
          vp_violation("C05", "cond:signals-lost", "trial %d: %ld fiber(s) have been inside fiber_cond_wait throughout %ld consecutive signal/broadcast calls issued by one signaller, and none was released",
                       trial, in_wait, s->c);
          vp_finish();
        }
      } else {
        s->a = ret_now;
        s->b = ent_now;
        s->c = 0;
      }
      // signal whether or not somebody is registered: signals that find nobody must be harmless for a fiber that is
      // registering at that very moment
      if (vp_rand(&s->rng) % 8 == 0) {
        vp_add(in_wait > 0 ? c_broadcasts : c_signal_nowaiter, 1);
        FB_BLOCKING(s, "C05 fiber_cond_broadcast", fiber_cond_broadcast(&cv));
      } else {
        vp_add(in_wait > 0 ? c_signals : c_signal_nowaiter, 1);
        FB_BLOCKING(s, "C05 fiber_cond_signal", fiber_cond_signal(&cv));
      }
      if ((vp_rand(&s->rng) & 3) == 0) fiber_yield();
      continue;
    }
    const int finished = entered_total == target_waits && waiting == 0;
    if (waiting > 0) {
      if (vp_rand(&s->rng) % 4 == 0) {
        const long released = waiting;
        credits += waiting;
        waiting = 0;
        vp_add(c_broadcasts, 1);
        vp_add(c_bc_released, released);
        bc_hist[released >= 4 ? 4 : released]++;
        FB_BLOCKING(s, "C05 fiber_cond_broadcast", fiber_cond_broadcast(&cv));
      } else {
        waiting--;
        credits++;
        vp_add(c_signals, 1);
        FB_BLOCKING(s, "C05 fiber_cond_signal", fiber_cond_signal(&cv));
      }
    } else if (!finished && (vp_rand(&s->rng) & 15) == 0) {
      // every registered waiter has been released: this signal must be a no-op (not remembered for later waits)
      vp_add(c_signal_nowaiter, 1);
      FB_BLOCKING(s, "C05 fiber_cond_signal", fiber_cond_signal(&cv));
    }
    leave_section();
    fiber_mutex_unlock(&mu);
    if (finished) break;
    fiber_yield();
  }
  return NULL;
}

// broadcast + late waiter + one signal, all issued without the user mutex (allowed): a crowd of N waits, the broadcaster releases
// it; a late waiter V registers while the broadcast may still be in progress; a third fiber issues exactly one signal after V is
// inside fiber_cond_wait. N+1 waits against one broadcast covering >= N of them plus one signal: everybody must return, whatever the
// interleaving. Nothing is signalled afterwards, so a dropped signal leaves somebody blocked (stranded at quiescence).
static _Atomic int lb_registered, lb_bcast_started, lb_v_registered, lb_returned;
static int lb_N;
static void* lb_crowd(void* a) {
  fb_slot_t* s = (fb_slot_t*)a;
  fiber_mutex_lock(&mu);
  atomic_fetch_add(&lb_registered, 1);
  FB_BLOCKING(s, "C05 fiber_cond_wait (crowd released by a broadcast)", fiber_cond_wait(&cv, &mu));
  atomic_fetch_add(&lb_returned, 1);
  fiber_mutex_unlock(&mu);
  return NULL;
}
static void* lb_broadcaster(void* a) {
  fb_slot_t* s = (fb_slot_t*)a;
  while (atomic_load(&lb_registered) < lb_N) fiber_yield();
  fiber_mutex_lock(&mu);  // every crowd member has released the mutex inside fiber_cond_wait, i.e. is counted
  fiber_mutex_unlock(&mu);
  atomic_store(&lb_bcast_started, 1);
  FB_BLOCKING(s, "C05 fiber_cond_broadcast", fiber_cond_broadcast(&cv));
  vp_add(c_broadcasts, 1);
  return NULL;
}
static void* lb_victim(void* a) {
  fb_slot_t* s = (fb_slot_t*)a;
  while (!atomic_load(&lb_bcast_started)) fiber_yield();
  fb_spin(&s->rng, 300);
  fiber_mutex_lock(&mu);
  atomic_store(&lb_v_registered, 1);
  FB_BLOCKING(s, "C05 fiber_cond_wait (late waiter owed the single signal or a place in the broadcast)", fiber_cond_wait(&cv, &mu));
  atomic_fetch_add(&lb_returned, 1);
  fiber_mutex_unlock(&mu);
  return NULL;
}
static void* lb_signaller(void* a) {
  fb_slot_t* s = (fb_slot_t*)a;
  while (!atomic_load(&lb_v_registered)) fiber_yield();
  fiber_mutex_lock(&mu);  // the late waiter is inside fiber_cond_wait now
  fiber_mutex_unlock(&mu);
  FB_BLOCKING(s, "C05 fiber_cond_signal", fiber_cond_signal(&cv));
  vp_add(c_signals, 1);
  return NULL;
}
static void late_waiter_rounds(uint64_t* rng) {
  static fb_slot_t* sl[512];
  const int rounds = 3 + (int)(vp_rand(rng) % 6);
  int r;
  for (r = 0; r < rounds && !vp_violation_count(); ++r) {
    lb_N = 10 + (int)(vp_rand(rng) % 150);
    atomic_store(&lb_registered, 0);
    atomic_store(&lb_bcast_started, 0);
    atomic_store(&lb_v_registered, 0);
    atomic_store(&lb_returned, 0);
    fb_slots_reset();
    int n = 0, i;
    for (i = 0; i < lb_N; ++i) sl[n++] = fb_spawn(lb_crowd, NULL);
    sl[n++] = fb_spawn(lb_broadcaster, NULL);
    sl[n++] = fb_spawn(lb_victim, NULL);
    sl[n++] = fb_spawn(lb_signaller, NULL);
    fb_join_all(sl, n);
    if (atomic_load(&lb_returned) != lb_N + 1)
      vp_violation("C05", "cond:ledger-unbalanced", "trial %d: %d of %d waits returned in a broadcast + late waiter + signal round", trial, atomic_load(&lb_returned), lb_N + 1);
    vp_count("cond_late_waiter_rounds", 1);
    vp_add(c_waits, lb_N + 1);
  }
}

// exact hammer: every wait hands out one credit under the user mutex before it waits; a signaller takes a credit under the mutex (so
// the waiter that gave it is inside fiber_cond_wait and counted) and then signals once, outside the mutex, racing with other
// registrations. Signals == waits, and every signal finds at least one registered waiter: all waits must return. A signal that
// gives up (a failed compare-and-swap taken for "no waiter") leaves one wait without its signal for good.
static long xh_credits;  // under mu
static _Atomic long xh_returned, xh_target, xh_signalled;
static int xh_waits;
static void* xh_waiter(void* a) {
  fb_slot_t* s = (fb_slot_t*)a;
  int i;
  for (i = 0; i < xh_waits; ++i) {
    fiber_mutex_lock(&mu);
    ++xh_credits;
    FB_BLOCKING(s, "C05 fiber_cond_wait (one signal is issued for every wait)", fiber_cond_wait(&cv, &mu));
    fiber_mutex_unlock(&mu);
    atomic_fetch_add(&xh_returned, 1);
    vp_add(c_waits, 1);
  }
  return NULL;
}
static void* xh_signaller(void* a) {
  fb_slot_t* s = (fb_slot_t*)a;
  // exactly one signal per wait: the signallers leave once all of them have been issued. If a wait is then still blocked, nothing
  // runs any more and the runtime goes quiescent with a stranded waiter.
  while (atomic_load(&xh_signalled) < atomic_load(&xh_target)) {
    int take = 0;
    fiber_mutex_lock(&mu);
    if (xh_credits > 0) {
      --xh_credits;
      take = 1;
    }
    fiber_mutex_unlock(&mu);
    if (take) {
      FB_BLOCKING(s, "C05 fiber_cond_signal", fiber_cond_signal(&cv));
      atomic_fetch_add(&xh_signalled, 1);
      vp_add(c_signals, 1);
    } else {
      fiber_yield();
    }
  }
  return NULL;
}
static void exact_hammer(uint64_t* rng) {
  static fb_slot_t* sl[128];
  const int W = 4 + (int)(vp_rand(rng) % 28), S = 2 + (int)(vp_rand(rng) % 3);
  xh_waits = 100 + (int)(vp_rand(rng) % (unsigned)vp_param("exact_waits", 400));
  xh_credits = 0;
  atomic_store(&xh_returned, 0);
  atomic_store(&xh_signalled, 0);
  atomic_store(&xh_target, (long)W * xh_waits);
  fb_slots_reset();
  int n = 0, i;
  for (i = 0; i < W; ++i) sl[n++] = fb_spawn(xh_waiter, NULL);
  for (i = 0; i < S; ++i) sl[n++] = fb_spawn(xh_signaller, NULL);
  fb_join_all(sl, n);
  vp_count("cond_exact_hammer_trials", 1);
}

void* sy_cond_root(void* x) {
  (void)x;
  const int trials = (int)vp_param("trials", 30);
  const int maxw = (int)vp_param("maxw", 32);
  c_waits = vp_counter("cond_waits_returned");
  c_signals = vp_counter("cond_signals_with_waiter");
  c_broadcasts = vp_counter("cond_broadcasts_with_waiters");
  c_signal_nowaiter = vp_counter("cond_signals_without_waiter");
  c_bc_released = vp_counter("cond_waiters_released_by_broadcasts");
  c_trials = vp_counter("cond_trials");
  uint64_t rng = vp_mix(vp_cfg.seed, 505);
  for (trial = 0; trial < trials; ++trial) {
    int W = 1 + (int)(vp_rand(&rng) % (unsigned)maxw);
    int S = 1 + (int)(vp_rand(&rng) % 4);
    waits_per_fiber = 1 + (int)(vp_rand(&rng) % (unsigned)vp_param("waits", 12));
    signal_outside_mutex = (int)(vp_rand(&rng) % 3 == 0);
    if (trial % 4 == 3) {
      // hammer: few waiters re-waiting thousands of times against tight unlocked signallers (windows without hook points)
      signal_outside_mutex = 1;
      W = 1 + (int)(vp_rand(&rng) % 3);
      S = 2 + (int)(vp_rand(&rng) % 3);
      waits_per_fiber = (int)vp_param("hammer_waits", 3000);
      vp_count("cond_hammer_trials", 1);
    }
    waiting = credits = entered_total = returned_total = 0;
    target_waits = (long)W * waits_per_fiber;
    atomic_store(&occ, 0);
    fiber_mutex_init(&mu);
    fiber_cond_init(&cv);
    if (trial % 5 == 4 || trial % 5 == 2) {
      if (trial % 5 == 4) late_waiter_rounds(&rng);
      else exact_hammer(&rng);
      if (atomic_load(&cv.waiter_count) != 0)
        vp_violation("C05", "cond:waiter-count-nonzero", "trial %d: nobody waits but the condition variable counts %ld waiters", trial, (long)atomic_load(&cv.waiter_count));
      fiber_cond_destroy(&cv);
      fiber_mutex_destroy(&mu);
      vp_add(c_trials, 1);
      vp_case();
      if (vp_violation_count()) break;
      continue;
    }
    fiber_manager_stats_t st0, st1;
    fiber_manager_all_stats(&st0);
    fb_slots_reset();
    fb_slot_t* sl[128];
    int n = 0, i;
    for (i = 0; i < W; ++i) sl[n++] = fb_spawn(waiter_fiber, NULL);
    for (i = 0; i < S; ++i) sl[n++] = fb_spawn(signaller_fiber, NULL);
    fb_join_all(sl, n);
    fiber_manager_all_stats(&st1);
    if (signal_outside_mutex) waiting = 0;  // not tracked in the weak mode
    if (credits != 0 || waiting != 0 || returned_total != target_waits)
      vp_violation("C05", "cond:ledger-unbalanced", "trial %d: all fibers finished with credits=%ld waiting=%ld returned=%ld of %ld", trial, credits, waiting,
                   returned_total, target_waits);
    if (atomic_load(&cv.waiter_count) != 0)
      vp_violation("C05", "cond:waiter-count-nonzero", "trial %d: nobody waits but the condition variable counts %ld waiters", trial,
                   (long)atomic_load(&cv.waiter_count));
    vp_count("lib_wake_mpsc_spin_count", (long)(st1.wake_mpsc_spin_count - st0.wake_mpsc_spin_count));
    vp_sig(vp_mix(((uint64_t)W << 24) | ((uint64_t)S << 16) | ((uint64_t)waits_per_fiber << 8) | (uint64_t)signal_outside_mutex,
                  (uint64_t)(st1.wake_mpsc_spin_count - st0.wake_mpsc_spin_count) * 7 + (uint64_t)vp_get(c_broadcasts)));
    if (trial < 2) vp_sample("cond trial %d: %d waiters x %d waits, %d signallers (%s the mutex), %d kernel threads; broadcast release histogram so far [0,1,2,3,4+]=[%ld,%ld,%ld,%ld,%ld]",
                             trial, W, waits_per_fiber, S, signal_outside_mutex ? "signalling after releasing" : "signalling while holding", vp_cfg.threads,
                             bc_hist[0], bc_hist[1], bc_hist[2], bc_hist[3], bc_hist[4]);
    fiber_cond_destroy(&cv);
    fiber_mutex_destroy(&mu);
    vp_add(c_trials, 1);
    vp_case();
    if (vp_violation_count()) break;
  }
  return NULL;
}
