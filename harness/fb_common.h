// Scaffold for harnesses that run on the real fiber runtime.
#ifndef FB_COMMON_H
#define FB_COMMON_H
#ifndef _GNU_SOURCE
#define _GNU_SOURCE
#endif
#include <unistd.h>

#include "fiber.h"
#include "fiber_manager.h"
#include "vp_rt.h"

#define FB_STACK (160 * 1024)
#define FB_MAX_SLOTS 4096

// one per harness fiber: what it is currently blocked in (for stranded-waiter attribution)
typedef struct fb_slot {
  _Atomic(const char*) where;  // "Cxx what" while inside a call that may block, else NULL
  int id;
  uint64_t rng;
  void* arg;
  fiber_t* fiber;
  _Atomic int finished;
  long a, b, c;  // scenario scratch
  uint64_t c_mark;
} fb_slot_t;

extern fb_slot_t fb_slots[FB_MAX_SLOTS];
extern _Atomic int fb_nslots;

fb_slot_t* fb_slot_new(void);  // allocates and seeds a slot
void fb_slots_reset(void);

#define FB_BLOCKING(slot, tag, stmt)            \
  do {                                          \
    atomic_store(&(slot)->where, (tag));        \
    stmt;                                       \
    atomic_store(&(slot)->where, (const char*)0); \
    vp_progress();                              \
  } while (0)

// optional extra diagnostics printed (to stderr and as a note) when the runtime is found stranded
extern void (*fb_stranded_diag)(void);
// standard stranded callback: one violation per distinct 'where' among unfinished slots
void fb_stranded_cb(void);

typedef void* (*fb_root_fn)(void*);
// init runtime (ghost monitor + hooks before fiber_manager_init), run root as a fiber, join it, finish
int fb_main(int argc, char** argv, fb_root_fn root);

// spawn helper: creates slot + fiber running fn(slot)
fb_slot_t* fb_spawn(void* (*fn)(void*), void* arg);
void fb_join_all(fb_slot_t** s, int n);
// the spawner is done with the slot (fiber joined): it may be recycled
void fb_slot_release(fb_slot_t* s);

// give the calling fiber a history: a blocking read ended by another fiber's close (leaves per-fiber state behind)
void fb_interrupted_read(fb_slot_t* s);

// number of hook hits of 'point' on the calling kernel thread
long vp_thread_hits(int point);

static inline void fb_spin(uint64_t* rng, unsigned max) {
  unsigned n = (unsigned)(vp_rand(rng) % (max + 1));
  while (n--) __asm__ __volatile__("pause" ::: "memory");
}

#endif
