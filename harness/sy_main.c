// fiber-aware synchronisation primitives: C03 mutex, C05 cond, C06 semaphore, C07 rwlock, C12 barrier, C18 spinlock
#include "fb_common.h"
void* sy_mutex_root(void*);
void* sy_cond_root(void*);
void* sy_sem_root(void*);
void* sy_rwlock_root(void*);
void* sy_barrier_root(void*);
void* sy_spin_root(void*);
int main(int argc, char** argv) {
  const char* sub = "";
  int i;
  for (i = 1; i < argc; ++i)
    if (!strncmp(argv[i], "sub=", 4)) sub = argv[i] + 4;
  fb_root_fn r = NULL;
  if (!strcmp(sub, "mutex")) r = sy_mutex_root;
  else if (!strcmp(sub, "cond")) r = sy_cond_root;
  else if (!strcmp(sub, "sem")) r = sy_sem_root;
  else if (!strcmp(sub, "rwlock")) r = sy_rwlock_root;
  else if (!strcmp(sub, "barrier")) r = sy_barrier_root;
  else if (!strcmp(sub, "spin")) r = sy_spin_root;
  if (!r) {
    fprintf(stderr, "unknown sub %s\n", sub);
    return 2;
  }
  return fb_main(argc, argv, r);
}
