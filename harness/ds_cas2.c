// C20 (containers): mpmc_lifo (CAS2 + counter), dist_fifo (one pusher, many poppers, CAS2 head), mpmc_stack (flush).
// Nodes are recycled immediately (pop then push the same node again) to create ABA pressure.
#include "ds_common.h"
#include "dist_fifo.h"
#include "mpmc_lifo.h"
#include "mpmc_stack.h"

static int cur_round;
static long quota;
static _Atomic long done_pushers, taken_total;
static long total_target;
static vp_counter_t *c_push, *c_pop, *c_empty, *c_retry, *c_reuse, *c_rounds, *c_flush, *c_flushed_nodes;

// ------------------------------------------------------------------ LIFO
typedef struct lnode {
  mpmc_lifo_node_t n;  // must be first
  _Atomic int owner;   // 0 = inside the stack, else worker id + 1
} lnode_t;
static mpmc_lifo_t lifo __attribute__((aligned(16)));
static int n_push, n_pop;

static void lifo_round(ds_worker_t* w) {
  // every worker pushes and pops; a popped node is immediately reused for the worker's next push
  uint64_t seq = 0;
  lnode_t* spare = NULL;
  ds_start_line();
  while ((long)seq < quota || spare) {
    if ((long)seq < quota && (spare || (vp_rand(&w->rng) & 1))) {
      lnode_t* n = spare ? spare : (lnode_t*)calloc(1, sizeof(lnode_t));
      if (spare) vp_add(c_reuse, 1);
      spare = NULL;
      const uint64_t val = ((uint64_t)(w->id + 1) << 40) | ++seq;
      n->n.data = (void*)(uintptr_t)val;
      atomic_store(&n->owner, 0);
      vp_op_t* o = vp_log_begin(&w->log, w->id, VP_OP_PUSH, val);
      mpmc_lifo_push(&lifo, &n->n);
      vp_log_end(o, VP_RES_OK, val);
      vp_add(c_push, 1);
    } else {
      if (spare) {  // quota reached: park the spare node for good
        spare = NULL;
        continue;
      }
      vp_op_t* o = vp_log_begin(&w->log, w->id, VP_OP_POP, 0);
      lnode_t* n = (lnode_t*)mpmc_lifo_pop(&lifo);
      if (n) {
        int exp = 0;
        if (!atomic_compare_exchange_strong(&n->owner, &exp, w->id + 1))
          vp_violation("C20", "lifo:two-takers", "round %d: node %p handed to thread %d while thread %d still owns it", cur_round,
                       (void*)n, w->id, exp - 1);
        vp_log_end(o, VP_RES_OK, (uint64_t)(uintptr_t)n->n.data);
        vp_add(c_pop, 1);
        spare = n;
      } else {
        vp_log_end(o, VP_RES_EMPTY, 0);
        vp_add(c_empty, 1);
        w->log.n--;  // emptiness is not constrained by the property
      }
    }
    if ((vp_rand(&w->rng) & 15) == 0) ds_tiny_delay(&w->rng, 200);
  }
}

void ds_sub_lifo(void) {
  const long rounds = vp_param("rounds", 100);
  const long ops = vp_param("ops", 2000);
  c_push = vp_counter("lifo_push");
  c_pop = vp_counter("lifo_pop_ok");
  c_empty = vp_counter("lifo_pop_empty");
  c_reuse = vp_counter("lifo_node_reused_immediately");
  c_rounds = vp_counter("lifo_rounds");
  uint64_t rng = vp_mix(vp_cfg.seed, 2020);
  for (cur_round = 0; cur_round < rounds; ++cur_round) {
    const int T = 1 + (int)(vp_rand(&rng) % (unsigned)ds_nworkers);
    quota = ops / T;
    if (quota < 1) quota = 1;
    mpmc_lifo_init(&lifo);
    if (vp_rand(&rng) & 1) lifo.data.counter = (uintptr_t)0x100000000ULL - 50;  // ABA counter crosses 2^32 during the round
    int i;
    for (i = 0; i < T; ++i) vp_log_reset(&ds_w[i].log);
    ds_run_round(T, lifo_round);
    for (;;) {  // final drain
      vp_op_t* o = vp_log_begin(&ds_w[0].log, 0, VP_OP_POP, 0);
      lnode_t* n = (lnode_t*)mpmc_lifo_pop(&lifo);
      if (!n) {
        vp_log_end(o, VP_RES_EMPTY, 0);
        break;
      }
      vp_log_end(o, VP_RES_OK, (uint64_t)(uintptr_t)n->n.data);
    }
    vp_hist_t h;
    ds_history_begin(&h, T);
    vp_report_t rep = {"C20", "mpmc_lifo"};
    char ctx[64];
    snprintf(ctx, sizeof(ctx), "round %d (%d threads)", cur_round, T);
    vp_val_t* vals;
    size_t nv = vp_vals_build(&h, &vals, &rep, ctx);
    vp_check_no_loss(vals, nv, &rep, ctx);
    vp_check_lifo(vals, nv, &rep, ctx);
    free(vals);
    ds_history_end(&h, ctx);
    vp_add(c_rounds, 1);
    if (vp_violation_count()) break;
  }
}

// ------------------------------------------------------------------ dist FIFO
static dist_fifo_t dfifo __attribute__((aligned(16)));
// nodes returned by poppers go back to the single pusher through per-popper single-slot mailboxes
static _Atomic(dist_fifo_node_t*) mailbox[DS_MAX_WORKERS];

static void dist_round(ds_worker_t* w) {
  ds_start_line();
  if (w->id == 0) {
    uint64_t seq = 0;
    while ((long)seq < quota) {
      dist_fifo_node_t* n = NULL;
      int i;
      for (i = 1; i < DS_MAX_WORKERS && !n; ++i) n = atomic_exchange(&mailbox[i], NULL);
      if (n) vp_add(c_reuse, 1);
      else n = (dist_fifo_node_t*)calloc(1, sizeof(*n));
      const uint64_t val = ++seq;
      n->data = (void*)(uintptr_t)val;
      vp_op_t* o = vp_log_begin(&w->log, w->id, VP_OP_PUSH, val);
      dist_fifo_push(&dfifo, n);
      vp_log_end(o, VP_RES_OK, val);
      vp_add(c_push, 1);
      if ((vp_rand(&w->rng) & 7) == 0) ds_tiny_delay(&w->rng, 300);
    }
    atomic_fetch_add(&done_pushers, 1);
  } else {
    uint64_t last = 0;
    long idle = 0;
    while (atomic_load(&taken_total) < total_target) {
      vp_op_t* o = vp_log_begin(&w->log, w->id, VP_OP_POP, 0);
      dist_fifo_node_t* n = dist_fifo_trypop(&dfifo);
      if (n == DIST_FIFO_EMPTY || n == DIST_FIFO_RETRY) {
        vp_add(n == DIST_FIFO_EMPTY ? c_empty : c_retry, 1);
        w->log.n--;
        if (n == DIST_FIFO_EMPTY && atomic_load(&done_pushers) && ++idle > 3000) break;
        continue;
      }
      idle = 0;
      const uint64_t val = (uint64_t)(uintptr_t)n->data;
      vp_log_end(o, VP_RES_OK, val);
      atomic_fetch_add(&taken_total, 1);
      vp_add(c_pop, 1);
      if (val <= last)
        vp_violation("C20", "dist:popper-order", "round %d: popper %d received item %llu after item %llu", cur_round, w->id,
                     (unsigned long long)val, (unsigned long long)last);
      last = val;
      // hand the node back for immediate reuse (never freed: the structure may still read popped nodes)
      dist_fifo_node_t* old = atomic_exchange(&mailbox[w->id], n);
      (void)old;  // a displaced node is simply parked (leaked on purpose)
      if ((vp_rand(&w->rng) & 15) == 0) ds_tiny_delay(&w->rng, 200);
    }
  }
}

void ds_sub_dist(void) {
  const long rounds = vp_param("rounds", 100);
  const long ops = vp_param("ops", 3000);
  c_push = vp_counter("dist_push");
  c_pop = vp_counter("dist_pop_ok");
  c_empty = vp_counter("dist_pop_empty");
  c_retry = vp_counter("dist_pop_retry_cas2_lost");
  c_reuse = vp_counter("dist_node_reused");
  c_rounds = vp_counter("dist_rounds");
  uint64_t rng = vp_mix(vp_cfg.seed, 2021);
  for (cur_round = 0; cur_round < rounds; ++cur_round) {
    const int poppers = 1 + (int)(vp_rand(&rng) % (unsigned)(ds_nworkers > 1 ? ds_nworkers - 1 : 1));
    quota = ops;
    total_target = quota;
    atomic_store(&taken_total, 0);
    atomic_store(&done_pushers, 0);
    dist_fifo_init(&dfifo);
    if (vp_rand(&rng) & 1) dfifo.head.pointer.counter = (uintptr_t)0x100000000ULL - 50;
    int i;
    for (i = 0; i < DS_MAX_WORKERS; ++i) atomic_store(&mailbox[i], NULL);
    for (i = 0; i <= poppers; ++i) vp_log_reset(&ds_w[i].log);
    ds_run_round(poppers + 1, dist_round);
    for (;;) {
      vp_op_t* o = vp_log_begin(&ds_w[0].log, 0, VP_OP_POP, 0);
      dist_fifo_node_t* n = dist_fifo_trypop(&dfifo);
      if (n == DIST_FIFO_EMPTY || n == DIST_FIFO_RETRY) {
        vp_log_end(o, VP_RES_EMPTY, 0);
        break;
      }
      vp_log_end(o, VP_RES_OK, (uint64_t)(uintptr_t)n->data);
    }
    vp_hist_t h;
    ds_history_begin(&h, poppers + 1);
    vp_report_t rep = {"C20", "dist_fifo"};
    char ctx[64];
    snprintf(ctx, sizeof(ctx), "round %d (%d poppers)", cur_round, poppers);
    vp_val_t* vals;
    size_t nv = vp_vals_build(&h, &vals, &rep, ctx);
    vp_check_no_loss(vals, nv, &rep, ctx);
    vp_check_fifo(vals, nv, &rep, ctx, 1);
    free(vals);
    ds_history_end(&h, ctx);
    vp_add(c_rounds, 1);
    if (vp_violation_count()) break;
  }
}

// ------------------------------------------------------------------ flushable stack
typedef struct snode {
  mpmc_stack_node_t n;  // must be first
  uint64_t val;
  _Atomic int owner;
} snode_t;
static mpmc_stack_t stk;
static int n_flushers;
static _Atomic uint8_t* s_taken;
static size_t s_taken_n;

static void consume_list(ds_worker_t* w, mpmc_stack_node_t* head, int fifo_order) {
  // per-producer order inside one flushed list
  uint64_t last[DS_MAX_WORKERS + 1];
  memset(last, 0, sizeof(last));
  long n = 0;
  while (head) {
    snode_t* s = (snode_t*)head;
    head = head->next;
    ++n;
    int exp = 0;
    if (!atomic_compare_exchange_strong(&s->owner, &exp, w->id + 1))
      vp_violation("C20", "stack:two-takers", "round %d: node with value %llx appears in two flush results (threads %d and %d)",
                   cur_round, (unsigned long long)s->val, exp - 1, w->id);
    const unsigned p = (unsigned)(s->val >> 40);
    const uint64_t q = s->val & 0xffffffffffULL;
    if (p <= DS_MAX_WORKERS) {
      if (last[p] && (fifo_order ? q <= last[p] : q >= last[p]))
        vp_violation("C20", "stack:flush-order", "round %d: %s flush list holds item %llu of producer %u %s item %llu", cur_round,
                     fifo_order ? "fifo" : "lifo", (unsigned long long)q, p, fifo_order ? "after" : "before",
                     (unsigned long long)last[p]);
      last[p] = q;
    }
    const size_t idx = (size_t)(p - 1) * (size_t)quota + (size_t)(q - 1);
    if (p >= 1 && idx < s_taken_n) atomic_store(&s_taken[idx], 1);
    atomic_fetch_add(&taken_total, 1);
  }
  vp_add(c_flushed_nodes, n);
}

static void stack_round(ds_worker_t* w) {
  ds_start_line();
  if (w->id < n_push) {
    uint64_t seq = 0;
    while ((long)seq < quota) {
      snode_t* s = (snode_t*)calloc(1, sizeof(*s));
      s->val = ((uint64_t)(w->id + 1) << 40) | ++seq;
      mpmc_stack_node_init(&s->n, s);
      if (vp_rand(&w->rng) & 1) {
        mpmc_stack_push(&stk, &s->n);
      } else {
        while (mpmc_stack_push_timeout(&stk, &s->n, 2) != MPMC_SUCCESS) {
        }
      }
      vp_add(c_push, 1);
      if ((vp_rand(&w->rng) & 7) == 0) ds_tiny_delay(&w->rng, 200);
    }
    atomic_fetch_add(&done_pushers, 1);
  } else {
    long idle = 0;
    while (atomic_load(&taken_total) < total_target) {
      const int fifo_order = (int)(vp_rand(&w->rng) & 1);
      mpmc_stack_node_t* l = fifo_order ? mpmc_stack_fifo_flush(&stk) : mpmc_stack_lifo_flush(&stk);
      vp_add(c_flush, 1);
      if (l) {
        idle = 0;
        consume_list(w, l, fifo_order);
      } else if (atomic_load(&done_pushers) == n_push && ++idle > 3000) {
        break;
      }
      ds_tiny_delay(&w->rng, 400);
    }
  }
}

void ds_sub_stack(void) {
  const long rounds = vp_param("rounds", 100);
  const long ops = vp_param("ops", 4000);
  c_push = vp_counter("stack_push");
  c_flush = vp_counter("stack_flush_calls");
  c_flushed_nodes = vp_counter("stack_nodes_flushed");
  c_rounds = vp_counter("stack_rounds");
  uint64_t rng = vp_mix(vp_cfg.seed, 2022);
  for (cur_round = 0; cur_round < rounds; ++cur_round) {
    const int T = ds_nworkers < 2 ? 2 : ds_nworkers;
    n_push = 1 + (int)(vp_rand(&rng) % (unsigned)(T - 1));
    n_flushers = 1 + (int)(vp_rand(&rng) % (unsigned)(T - n_push));
    quota = ops / n_push;
    if (quota < 1) quota = 1;
    total_target = quota * n_push;
    s_taken_n = (size_t)total_target;
    s_taken = calloc(s_taken_n, 1);
    atomic_store(&taken_total, 0);
    atomic_store(&done_pushers, 0);
    mpmc_stack_init(&stk);
    ds_run_round(n_push + n_flushers, stack_round);
    consume_list(&ds_w[0], mpmc_stack_fifo_flush(&stk), 1);
    size_t i;
    long lost = 0;
    for (i = 0; i < s_taken_n; ++i)
      if (!s_taken[i] && lost++ < 3)
        vp_violation("C20", "stack:lost", "round %d: pushed item #%zu never appeared in any flush result", cur_round, i);
    vp_sig(vp_mix(((uint64_t)n_push << 8) | (uint64_t)n_flushers, (uint64_t)vp_get(c_flush)));
    vp_progress();
    vp_case();
    free((void*)s_taken);
    vp_add(c_rounds, 1);
    if (vp_violation_count()) break;
  }
}
