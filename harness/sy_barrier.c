// C12: barrier, reused round after round by the same fibers.
#include "fb_common.h"
#include "fiber_barrier.h"

#define MAXR 32768
static fiber_barrier_t bar;
static int count, rounds, trial;
static _Atomic int arrived[MAXR], serial[MAXR];
static vp_counter_t *c_rounds, *c_trials, *c_waits;

static void* bar_fiber(void* a) {
  fb_slot_t* s = (fb_slot_t*)a;
  int k;
  for (k = 0; k < rounds; ++k) {
    atomic_fetch_add(&arrived[k], 1);
    int r = 0;
    FB_BLOCKING(s, "C12 fiber_barrier_wait", r = fiber_barrier_wait(&bar));
    const int arr = atomic_load(&arrived[k]);
    if (arr != count)
      vp_violation("C12", "barrier:passed-early", "trial %d (count %d): fiber %d returned from its wait #%d when only %d fibers had entered that round", trial,
                   count, s->id, k, arr);
    if (r == FIBER_BARRIER_SERIAL_FIBER) atomic_fetch_add(&serial[k], 1);
    vp_add(c_waits, 1);
    if (k > 0 && atomic_load(&serial[k - 1]) != 1)
      vp_violation("C12", "barrier:serial-count", "trial %d (count %d): round %d had %d serial fibers", trial, count, k - 1, atomic_load(&serial[k - 1]));
    const unsigned d = (unsigned)(vp_rand(&s->rng) % 16);
    if (d == 0) fiber_yield();
    else if (d < 4) fb_spin(&s->rng, 200);  // otherwise re-enter immediately
  }
  return NULL;
}

void* sy_barrier_root(void* x) {
  (void)x;
  const int trials = (int)vp_param("trials", 20);
  const int max_rounds = (int)vp_param("rounds", 300);
  c_rounds = vp_counter("barrier_rounds");
  c_trials = vp_counter("barrier_trials");
  c_waits = vp_counter("barrier_waits_returned");
  static const int counts[] = {1, 2, 3, 4, 7, 16, 64};
  uint64_t rng = vp_mix(vp_cfg.seed, 1212);
  const int fixed_count = (int)vp_param("count", 0);
  for (trial = 0; trial < trials; ++trial) {
    count = fixed_count ? fixed_count : counts[vp_rand(&rng) % 7];
    const int maxcount = (int)vp_param("maxcount", 64);
    while (count > maxcount) count = counts[vp_rand(&rng) % 7];
    rounds = max_rounds > MAXR ? MAXR : max_rounds;
    if (count >= 16) rounds = rounds / 4 + 1;
    memset(arrived, 0, sizeof(arrived));
    memset(serial, 0, sizeof(serial));
    fiber_barrier_init(&bar, (uint32_t)count);
    if (vp_rand(&rng) & 1) bar.counter = ((0x100000000ULL / (uint64_t)count) - 20) * (uint64_t)count;  // arrival counter crosses 2^32
    fiber_manager_stats_t st0, st1;
    fiber_manager_all_stats(&st0);
    fb_slots_reset();
    fb_slot_t* sl[64];
    int i;
    for (i = 0; i < count; ++i) sl[i] = fb_spawn(bar_fiber, NULL);
    fb_join_all(sl, count);
    fiber_manager_all_stats(&st1);
    if (atomic_load(&serial[rounds - 1]) != 1)
      vp_violation("C12", "barrier:serial-count", "trial %d (count %d): last round had %d serial fibers", trial, count, atomic_load(&serial[rounds - 1]));
    vp_add(c_rounds, rounds);
    vp_count("lib_wake_mpsc_spin_count", (long)(st1.wake_mpsc_spin_count - st0.wake_mpsc_spin_count));
    vp_sig(vp_mix((uint64_t)count, (uint64_t)(st1.wake_mpsc_spin_count - st0.wake_mpsc_spin_count) * 5 + (uint64_t)vp_cfg.threads));
    if (trial < 2) vp_sample("barrier trial %d: %d fibers, %d back-to-back rounds, %d kernel threads, waker found an arrived-but-not-enqueued waiter %llu times",
                             trial, count, rounds, vp_cfg.threads, (unsigned long long)(st1.wake_mpsc_spin_count - st0.wake_mpsc_spin_count));
    fiber_barrier_destroy(&bar);
    vp_add(c_trials, 1);
    vp_case();
    if (vp_violation_count()) break;
  }
  return NULL;
}
