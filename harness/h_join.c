// C04: join / tryjoin / detach against completion. Scenario trials, each with one target fiber and 1-3 actors.
// A gate keeps the target alive whenever a second use of its handle is generated, so the harness itself never
// touches a handle after a successful join/tryjoin/detach of a finished fiber (that would be out of contract).
#include <sys/socket.h>

#include "fb_common.h"

enum { S1_JOIN, S2_TRYJOIN, S3_DETACH, S4_TWO_JOINERS, S5_JOIN_AFTER_DETACH, S6_DETACH_WHILE_JOINED, S7_DOUBLE_DETACH, S8_JOIN_AFTER_IO, NSCEN };
static const char* const scen_names[NSCEN] = {"S1 join x finish", "S2 repeated tryjoin x finish", "S3 detach x finish", "S4 second joiner while one is blocked",
                                              "S5 join/tryjoin after detach (alive)", "S6 detach while a joiner is blocked", "S7 double detach",
                                              "S8 join of a running fiber after a close-interrupted read"};

typedef struct trial {
  int scen, id;
  uint64_t rng;
  fiber_t* target;
  uint64_t target_gen;
  void* token;
  _Atomic int returned;  // set by the target's last statement
  _Atomic int gate;      // 1 = target may return
  int gated;
  int pre_target, pre_actor;
  _Atomic int actors_done;
  _Atomic int successes, failures;
  _Atomic int j1_in;
} trial_t;

static vp_counter_t *c_scen[NSCEN], *c_join_first, *c_finish_first, *c_tryjoin_fail, *c_trials;

static void delay(uint64_t* rng, int n) {
  int i;
  for (i = 0; i < n; ++i) {
    if (vp_rand(rng) & 1) fiber_yield();
    else fb_spin(rng, 300);
  }
}

static _Atomic long targets_created, targets_expected_reclaimed;
// a legitimate multi-step history: this fiber's blocking read is ended by another fiber closing the descriptor; whatever
// the runtime left behind in the fiber must not influence a later join
static int closer_fd;
static void* closer_fn(void* a) {
  const int fd = (int)(intptr_t)a;
  usleep(2000);
  close(fd);
  return NULL;
}
static void interrupted_read(fb_slot_t* s) {
  int sv[2];
  if (socketpair(AF_UNIX, SOCK_STREAM, 0, sv)) return;
  fiber_t* c = fiber_create(FB_STACK / 2, closer_fn, (void*)(intptr_t)sv[0]);
  atomic_fetch_add(&targets_created, 1);
  char b[4];
  ssize_t r = 0;
  FB_BLOCKING(s, "C04 read (ended by close in another fiber)", r = read(sv[0], b, sizeof(b)));
  (void)r;
  fiber_join(c, NULL);
  close(sv[1]);
  (void)closer_fd;
  vp_count("join_after_close_interrupted_read", 1);
}

static void* target_fn(void* a) {
  trial_t* t = (trial_t*)a;
  uint64_t r = t->rng ^ 0x9999;
  delay(&r, t->pre_target);
  while (t->gated && !atomic_load(&t->gate)) fiber_yield();
  atomic_store(&t->returned, 1);
  return t->token;
}

static void check_success(trial_t* t, const char* how, void* res, int who) {
  const int n = atomic_fetch_add(&t->successes, 1) + 1;
  if (!atomic_load(&t->returned))
    vp_violation("C04", t->scen == S6_DETACH_WHILE_JOINED ? "join:S6-success-before-return" : "join:success-before-return",
                 "trial %d (%s): %s by actor %d succeeded although the target's function has not returned", t->id, scen_names[t->scen], how, who);
  else if (res != t->token)
    vp_violation("C04", "join:wrong-result", "trial %d (%s): %s by actor %d delivered %p, the target returned %p", t->id, scen_names[t->scen], how, who, res, t->token);
  if (n > 1) vp_violation("C04", "join:two-joiners-succeeded", "trial %d (%s): %d joiners succeeded on one fiber", t->id, scen_names[t->scen], n);
}

typedef struct {
  trial_t* t;
  int role;
} actor_arg_t;

static void* actor_fn(void* a) {
  fb_slot_t* s = (fb_slot_t*)a;
  actor_arg_t* aa = (actor_arg_t*)(intptr_t)s->c;
  trial_t* t = aa->t;
  const int role = aa->role;
  uint64_t r = t->rng ^ (uint64_t)(role * 77 + 5);
  void* res = (void*)(uintptr_t)0xbad;
  delay(&r, role == 0 ? t->pre_actor : t->pre_actor / 2 + (int)(vp_rand(&r) % 4));
  switch (t->scen) {
    case S1_JOIN: {
      if ((vp_rand(&r) & 7) == 0) interrupted_read(s);
      vp_add(atomic_load(&t->returned) ? c_finish_first : c_join_first, 1);
      int ok = 0;
      FB_BLOCKING(s, "C04 fiber_join", ok = fiber_join(t->target, &res));
      if (ok == FIBER_SUCCESS) check_success(t, "fiber_join", res, role);
      else vp_violation("C04", "join:failed", "trial %d (S1): the only joiner of a joinable fiber got an error", t->id);
      break;
    }
    case S2_TRYJOIN: {
      atomic_store(&s->where, "C04 fiber_tryjoin polling");
      for (;;) {
        const int ok = fiber_tryjoin(t->target, &res);
        if (ok == FIBER_SUCCESS) {
          check_success(t, "fiber_tryjoin", res, role);
          break;
        }
        vp_add(c_tryjoin_fail, 1);
        if (vp_rand(&r) & 1) fiber_yield();
      }
      atomic_store(&s->where, (const char*)0);
      break;
    }
    case S3_DETACH:
      if (fiber_detach(t->target) != FIBER_SUCCESS) vp_violation("C04", "detach:failed", "trial %d (S3): first detach of a joinable fiber failed", t->id);
      break;
    case S4_TWO_JOINERS: {
      // target is gated alive; two actors race join/tryjoin; exactly one may ever succeed
      int ok;
      if (role == 1 && (vp_rand(&r) & 1)) {
        ok = fiber_tryjoin(t->target, &res);
      } else {
        atomic_fetch_add(&t->j1_in, 1);
        FB_BLOCKING(s, "C04 fiber_join", ok = fiber_join(t->target, &res));
      }
      if (ok == FIBER_SUCCESS) check_success(t, "join/tryjoin (S4)", res, role);
      else atomic_fetch_add(&t->failures, 1);
      break;
    }
    case S5_JOIN_AFTER_DETACH: {
      if (fiber_detach(t->target) != FIBER_SUCCESS) vp_violation("C04", "detach:failed", "trial %d (S5): first detach failed", t->id);
      int ok = fiber_tryjoin(t->target, &res);
      if (ok == FIBER_SUCCESS) vp_violation("C04", "join:detached-fiber-joined", "trial %d (S5): tryjoin succeeded on a detached fiber", t->id);
      FB_BLOCKING(s, "C04 fiber_join", ok = fiber_join(t->target, &res));
      if (ok == FIBER_SUCCESS) vp_violation("C04", "join:detached-fiber-joined", "trial %d (S5): join succeeded on a detached fiber", t->id);
      break;
    }
    case S6_DETACH_WHILE_JOINED: {
      if (role == 0) {
        int ok = 0;
        atomic_store(&t->j1_in, 1);
        fb_spin(&r, 120);  // the detacher spins for a random moment too: either may reach the handle first, or both at once
        FB_BLOCKING(s, "C04 fiber_join", ok = fiber_join(t->target, &res));
        if (ok == FIBER_SUCCESS) check_success(t, "fiber_join (S6)", res, role);
        else atomic_fetch_add(&t->failures, 1);
      } else {
        // detach once the joiner is certainly inside fiber_join (flag set, then a few switches)
        atomic_store(&s->where, "C04 waiting for the joiner to block");
        while (!atomic_load(&t->j1_in)) fiber_yield();
        atomic_store(&s->where, (const char*)0);
        // either a few switches later (the joiner is parked by then) or at once, racing with the joiner's entry into fiber_join
        if (vp_rand(&r) & 1) delay(&r, 3);
        else fb_spin(&r, 120);
        fiber_detach(t->target);
      }
      break;
    }
    case S8_JOIN_AFTER_IO: {
      // the joiner's history includes a blocking read that another fiber ended by closing the descriptor; the target is
      // kept alive until the joiner is inside fiber_join, so the joiner really parks and must get the token
      interrupted_read(s);
      int ok = 0;
      atomic_store(&t->j1_in, 1);
      FB_BLOCKING(s, "C04 fiber_join", ok = fiber_join(t->target, &res));
      if (ok == FIBER_SUCCESS) check_success(t, "fiber_join (S8)", res, role);
      else vp_violation("C04", "join:failed", "trial %d (S8): the only joiner of a joinable, running fiber got an error instead of its result", t->id);
      break;
    }
    case S7_DOUBLE_DETACH: {
      const int a1 = fiber_detach(t->target), a2 = fiber_detach(t->target);
      if (a1 != FIBER_SUCCESS || a2 == FIBER_SUCCESS)
        vp_violation("C04", "detach:double", "trial %d (S7): first detach returned %d, second returned %d", t->id, a1, a2);
      break;
    }
  }
  vp_progress();
  atomic_fetch_add(&t->actors_done, 1);
  return NULL;
}

static _Atomic int trial_ids;
static int fixed_scen = -1;

static void* trial_driver(void* a) {
  fb_slot_t* s = (fb_slot_t*)a;
  const int ntr = (int)s->c;
  int k;
  for (k = 0; k < ntr && !vp_violation_count(); ++k) {
    trial_t* t = (trial_t*)calloc(1, sizeof(*t));
    t->id = atomic_fetch_add(&trial_ids, 1);
    t->rng = vp_mix(vp_cfg.seed, 40000 + (uint64_t)t->id);
    t->scen = fixed_scen >= 0 ? fixed_scen : (int)(vp_rand(&t->rng) % NSCEN);
    t->token = (void*)(uintptr_t)(0x100000 + (uint64_t)t->id * 16 + 8);
    t->gated = t->scen >= S4_TWO_JOINERS;  // S4..S8 need the target alive
    t->pre_target = (int)(vp_rand(&t->rng) % 6);
    t->pre_actor = (int)(vp_rand(&t->rng) % 6);
    vp_add(c_scen[t->scen], 1);
    const int nactors = (t->scen == S4_TWO_JOINERS || t->scen == S6_DETACH_WHILE_JOINED) ? 2 : 1;
    t->target = fiber_create(FB_STACK / 2, target_fn, t);
    atomic_fetch_add(&targets_created, 1 + nactors);
    actor_arg_t aa[2] = {{t, 0}, {t, 1}};
    fb_slot_t* as[2];
    int i;
    for (i = 0; i < nactors; ++i) as[i] = fb_spawn(actor_fn, (void*)(intptr_t)&aa[i]);
    if (t->gated) {
      // open the gate only after the actors did what needs the target alive
      atomic_store(&s->where, "C04 actors' first phase");
      if (t->scen == S4_TWO_JOINERS) {
        // a failure proves that both actors have made their claim on the handle; only then may the target finish
        while (atomic_load(&t->failures) < 1 && atomic_load(&t->actors_done) < nactors) fiber_yield();
      } else if (t->scen == S8_JOIN_AFTER_IO) {
        // let the joiner get into fiber_join (flag, then a few switches) before the target may finish
        while (!atomic_load(&t->j1_in)) fiber_yield();
        int g;
        for (g = 0; g < 6; ++g) fiber_yield();
      } else if (t->scen == S6_DETACH_WHILE_JOINED) {
        // the joiner must be out of fiber_join (error return) before the detached target may finish and vanish
        while (atomic_load(&t->actors_done) < nactors) fiber_yield();
      } else {
        while (atomic_load(&t->actors_done) < nactors) fiber_yield();
      }
      atomic_store(&s->where, (const char*)0);
      atomic_store(&t->gate, 1);
    }
    for (i = 0; i < nactors; ++i) {
      FB_BLOCKING(s, "C04 fiber_join(actor)", fiber_join(as[i]->fiber, NULL));
      fb_slot_release(as[i]);
    }
    if (t->scen == S4_TWO_JOINERS && (atomic_load(&t->successes) != 1 || atomic_load(&t->failures) != 1))
      vp_violation("C04", "join:S4-outcome", "trial %d (S4): two joiners produced %d successes and %d failures", t->id, atomic_load(&t->successes),
                   atomic_load(&t->failures));
    // wait until the target really returned (S3/S5/S7 detach paths) so the trial memory can be recycled safely
    atomic_store(&s->where, "C04 target completion");
    while (!atomic_load(&t->returned)) fiber_yield();
    atomic_store(&s->where, (const char*)0);
    atomic_fetch_add(&targets_expected_reclaimed, 1);
    vp_sig(vp_mix(((uint64_t)t->scen << 8) | (uint64_t)t->pre_target * 7 + (uint64_t)t->pre_actor, (uint64_t)atomic_load(&t->successes) * 3 + (uint64_t)atomic_load(&t->failures)));
    vp_add(c_trials, 1);
    vp_case();
    // t is leaked on purpose: a late (buggy) access must not hit recycled harness memory
  }
  return NULL;
}

static void* root(void* x) {
  (void)x;
  const int drivers = (int)vp_param("drivers", 8);
  const int per = (int)vp_param("trials", 60);
  fixed_scen = (int)vp_param("scenario", -1);
  int i;
  for (i = 0; i < NSCEN; ++i) c_scen[i] = vp_counter(scen_names[i]);
  c_join_first = vp_counter("join_joiner_arrived_first");
  c_finish_first = vp_counter("join_target_finished_first");
  c_tryjoin_fail = vp_counter("join_tryjoin_not_yet");
  c_trials = vp_counter("join_trials");
  vp_ghost_set_props("C04", "C02");
  fb_slots_reset();
  static fb_slot_t* ds[64];
  const long destroyed0 = vp_get(vp_counter("fibers_destroyed"));
  atomic_store(&targets_created, drivers < 64 ? drivers : 64);
  for (i = 0; i < drivers && i < 64; ++i) ds[i] = fb_spawn(trial_driver, (void*)(intptr_t)per);
  for (i = 0; i < drivers && i < 64; ++i) fiber_join(ds[i]->fiber, NULL);
  // reclamation balance: everything created in this phase (targets, actors, drivers) was joined or detached and has
  // finished, so it must all be reclaimed once the runtime settles
  fb_slot_t* me = fb_slot_new();
  atomic_store(&me->where, "C04 reclamation of finished joined/detached fibers");
  long spins = 0;
  for (;;) {
    // fibers created by the harness in this phase: drivers, targets, actors (the runtime's own lazily created
    // maintenance fiber is not one of them)
    const long c = atomic_load(&targets_created), d = vp_get(vp_counter("fibers_destroyed")) - destroyed0;
    if (c == d) break;
    fiber_yield();
    // "never" is a state, not a number of yields: every other kernel thread idle, nothing queued, nothing pending - and still a
    // finished, joined or detached fiber has not been reclaimed (seen on three looks; the wall-clock watchdog covers the rest)
    if (++spins > 200000 && (spins % 50000) == 0) {
      static int looks;
      if (vp_ghost_others_idle() && vp_get(vp_counter("fibers_destroyed")) - destroyed0 == d) {
        if (++looks >= 3) {
          vp_violation("C04", "reclaim:never", "%ld fibers were created, joined or detached and finished, but only %ld were reclaimed although every other kernel thread is idle and nothing is queued", c, d);
          break;
        }
      } else {
        looks = 0;
      }
      // ... or a finished fiber that is still executing and has produced no event (nor has anybody else) over three looks >= 100 ms
      // apart: it waits, without ever switching, for something that will not come
      static const void* stuck;
      static uint64_t stuck_sw, stuck_ns;
      static int stuck_looks;
      uint64_t sw = 0;
      const void* f = vp_ghost_finished_but_running(&sw);
      if (f && f == stuck && sw == stuck_sw) {
        if (vp_now_ns() - stuck_ns > 100000000ULL) {
          stuck_ns = vp_now_ns();
          if (++stuck_looks >= 3) {
            vp_violation("C04", "reclaim:finished-fiber-never-completes",
                         "fiber %p returned from its function but is still executing and has not switched or been reclaimed while the rest of the runtime produced no event: "
                         "it waits for a joiner that does not exist (%ld created, %ld reclaimed)", f, c, d);
            break;
          }
        }
      } else {
        stuck = f;
        stuck_sw = sw;
        stuck_ns = vp_now_ns();
        stuck_looks = 0;
      }
    }
  }
  atomic_store(&me->where, (const char*)0);
  atomic_store(&me->finished, 1);
  vp_sample("join run: %d concurrent trial drivers x %d trials on %d kernel threads; scenario classes S1..S7 drawn per trial", drivers, per, vp_cfg.threads);
  return NULL;
}

int main(int argc, char** argv) { return fb_main(argc, argv, root); }
