// Common runtime for the libfiber runtime-monitoring harnesses (see DESIGN.md §3).
//  - key=value configuration, seeded PRNGs
//  - hook dispatcher + perturbation engine (monitor / jitter / targeted stall / priority skew)
//  - counters, distinct-signature set, samples, violation list, JSON result file
//  - watchdog thread: logical quiescence (stranded waiters), livelock, wall-clock (inconclusive)
#ifndef VP_RT_H
#define VP_RT_H

#include <stdatomic.h>
#include <pthread.h>
#include <stdint.h>
#include <stdio.h>
#include <stdlib.h>
#include <string.h>
#include <time.h>

#ifndef FIBER_VERIF
#error "harnesses must be built with -DFIBER_VERIF"
#endif
#include "fiber_verif.h"

#ifdef __cplusplus
extern "C" {
#endif

#define VP_MAX_THREADS 72

enum { VP_MODE_NOHOOK = 0, VP_MODE_MONITOR, VP_MODE_JITTER, VP_MODE_STALL, VP_MODE_SKEW };

typedef struct vp_cfg {
  uint64_t seed;
  int threads;
  int mode;
  int stall_point;  // FV_* id (VP_MODE_STALL)
  int stall_every;  // stall on every k-th hit of the point
  int stall_us_lo, stall_us_hi;
  int watchdog_s;  // wall clock limit: firing = inconclusive
  const char* out;
  const char* sub;
} vp_cfg_t;

extern vp_cfg_t vp_cfg;

void vp_init(int argc, char** argv);
long vp_param(const char* name, long dflt);
const char* vp_param_str(const char* name, const char* dflt);
const char* vp_point_name(int point);
int vp_point_by_name(const char* name);

// ---- PRNG (xorshift64*, state must be non-zero)
static inline uint64_t vp_rand(uint64_t* s) {
  uint64_t x = *s;
  x ^= x >> 12;
  x ^= x << 25;
  x ^= x >> 27;
  *s = x;
  return x * 0x2545F4914F6CDD1DULL;
}
static inline uint64_t vp_mix(uint64_t a, uint64_t b) {
  uint64_t z = a + 0x9E3779B97F4A7C15ULL * (b + 1);
  z = (z ^ (z >> 30)) * 0xBF58476D1CE4E5B9ULL;
  z = (z ^ (z >> 27)) * 0x94D049BB133111EBULL;
  z ^= z >> 31;
  return z ? z : 0x1234567ULL;
}
static inline uint64_t vp_rand_range(uint64_t* s, uint64_t n) { return n ? vp_rand(s) % n : 0; }

static inline uint64_t vp_now_ns(void) {
  struct timespec ts;
  clock_gettime(CLOCK_MONOTONIC, &ts);
  return (uint64_t)ts.tv_sec * 1000000000ULL + (uint64_t)ts.tv_nsec;
}
// delays that never go through anything libfiber shims
void vp_busy_ns(uint64_t ns);
void vp_real_sleep_us(uint64_t us);

// ---- kernel thread index (stable per pthread, assigned on first use)
int vp_tid(void);

// ---- counters
typedef struct vp_counter {
  const char* name;
  _Atomic long v;
} vp_counter_t;
vp_counter_t* vp_counter(const char* name);
static inline void vp_add(vp_counter_t* c, long n) { atomic_fetch_add_explicit(&c->v, n, memory_order_relaxed); }
static inline long vp_get(vp_counter_t* c) { return atomic_load_explicit(&c->v, memory_order_relaxed); }
void vp_max(vp_counter_t* c, long v);
void vp_min(vp_counter_t* c, long v);
// convenience for cold paths
void vp_count(const char* name, long n);

// ---- distinct signatures, samples, violations
void vp_sig(uint64_t h);
long vp_sig_count(void);
void vp_sample(const char* fmt, ...) __attribute__((format(printf, 1, 2)));
// prop: "C03" ...; key: stable scenario-class / root-site key used for known-findings matching
void vp_violation(const char* prop, const char* key, const char* fmt, ...) __attribute__((format(printf, 3, 4)));
long vp_violation_count(void);
void vp_note(const char* fmt, ...) __attribute__((format(printf, 1, 2)));

// progress heartbeat: harness calls it for every completed client operation
extern _Atomic uint64_t vp_progress_ctr;
extern _Atomic uint64_t vp_case_ctr;
// one evaluated case (trial / history / scenario instance)
static inline void vp_case(void) { atomic_fetch_add_explicit(&vp_case_ctr, 1, memory_order_relaxed); }
static inline void vp_progress(void) { atomic_fetch_add_explicit(&vp_progress_ctr, 1, memory_order_relaxed); }

// ---- finishing: writes the JSON result file and _exit()s.
// exit codes: 0 = no violation, 1 = violations recorded, 3 = inconclusive
void vp_finish(void) __attribute__((noreturn));
void vp_inconclusive(const char* fmt, ...) __attribute__((noreturn, format(printf, 1, 2)));

// ---- hook engine
typedef void (*vp_observer_t)(int point, const void* a, const void* b, int tid);
void vp_add_observer(vp_observer_t fn);
void vp_hook_install(void);  // according to vp_cfg.mode (NOHOOK leaves the pointer NULL)
long vp_hook_hits(int point);
long vp_hook_delays(int point);
// harness-side perturbation point (same engine as library points), ids >= 100 are harness-private
void vp_point(int point, const void* a, const void* b);

// ---- watchdog
typedef void (*vp_stranded_cb_t)(void);
// runtime_mode != 0: evaluate logical quiescence of the fiber runtime (needs ghost monitor)
void vp_watchdog_start(int runtime_mode, vp_stranded_cb_t on_stranded);
void vp_mark_done(void);  // harness reached its normal end: watchdog stops judging
// called from the watchdog thread every few ms (logical, harness-specific deadlock checks)
void vp_set_periodic(void (*cb)(void));

// ---- ghost monitor of the fiber runtime (vp_ghost.c)
typedef struct vp_gfiber {
  _Atomic(uintptr_t) key;  // fiber address
  _Atomic int running_on;  // -1 nobody, -2 native thread not yet seen, >=0 kernel thread index
  _Atomic int pending;     // run-queue entries
  _Atomic int destroyed;
  _Atomic int is_thread;
  _Atomic int sleeping;   // registered in sleeper tree, not yet scheduled
  _Atomic int fdwait;     // registered on an fd, not yet scheduled
  _Atomic int finishing;  // run function returned
  _Atomic uint64_t gen;
  _Atomic uint64_t switches_out;
  _Atomic uint64_t switches_in;
  _Atomic uint64_t wakeups;        // SCHEDULE events
  _Atomic uintptr_t queued_sched;  // scheduler it was last pushed to
  _Atomic uint64_t queued_mark;
  _Atomic long mark_gen;
  _Atomic uint64_t skips;  // times the scheduler popped it while its suspension was still being completed and put it back    // that scheduler's switch counter at push time
  _Atomic uint64_t sleep_wake_tick;
  _Atomic int last_thread;
  _Atomic uint64_t migrations;
  _Atomic uint64_t sleep_regs;   // SLEEP_REGISTERED events
  _Atomic uint64_t sleep_wakes;  // wake-ups that ended a registered sleep
} vp_gfiber_t;

void vp_ghost_enable(void);
vp_gfiber_t* vp_ghost_lookup(const void* fiber);  // NULL if unknown
vp_gfiber_t* vp_ghost_self(void);                 // ghost of the calling fiber
uint64_t vp_self_switches(void);                  // times the calling fiber was switched out
long vp_ghost_pending_total(void);
long vp_ghost_sleepers(void);
long vp_ghost_fdwaiters(void);
long vp_ghost_live_fibers(void);
int vp_preempt_now(pthread_t t);
void vp_ghost_check_starved(void);
int vp_ghost_others_idle(void);
const void* vp_ghost_finished_but_running(uint64_t* sw_out);
void vp_ghost_check_overdue_sleepers(void);
const void* vp_ghost_ready_on_my_sched(uint64_t* mark_out);
long vp_ghost_bypass_bound(void);
uint64_t vp_ghost_ticks(void);
// what the tick base would be at monotonic time at_ns if every timer expiration had been accounted on time (diagnostics; 0 = unknown)
uint64_t vp_ghost_clock_ticks(uint64_t at_ns);
int vp_ghost_quiescent(void);
int vp_ghost_idle_but_queued(void);
void vp_ghost_dump(FILE* f, int max);
void vp_ghost_report_counters(void);
// C10 support: maximum number of times a queued fiber was bypassed on its scheduler
long vp_ghost_max_bypass(void);
void vp_ghost_reset_bypass(void);
// online fairness bound: violation (C10) when a queued fiber is bypassed more than base + per_live_fiber * live fibers times
void vp_ghost_set_bypass_limit(long base, long per_live_fiber);
// property attribution for ghost violations raised while this harness runs ("C01" by default)
void vp_ghost_set_props(const char* exec_prop, const char* queue_prop);

#ifdef __cplusplus
}
#endif
#endif
