// C03: fiber mutex. Trials of F fibers x M mutexes doing lock/trylock, sections with yields/sleeps inside.
#include "fb_common.h"
// under TSan the harness-side occupancy counter must not itself create happens-before edges between owners
#ifdef VP_TSAN
#define OCC_ORDER memory_order_relaxed
#else
#define OCC_ORDER memory_order_seq_cst
#endif
#include "fiber_mutex.h"
#include "fiber_cond.h"

#define MAXM 3
typedef struct {
  fiber_mutex_t mu;
  _Atomic int occ;
  // plain payload, protected only by the mutex (TSan judges these: both accesses in vp_payload_*)
  long pa, pb;
  uint64_t order_hash;
  long sections;
  // 'deferred' trials: some owners give the mutex up through fiber_cond_wait (released by the kernel thread that completes the
  // owner's context switch, not by the owner). active/parked are only touched under mu.
  fiber_cond_t cv;
  int parked;
  char pad[64];
} mx_t;
static mx_t mx[MAXM];
static int nm, iters, trial, deferred;
// deferred trials: workers still iterating / workers parked in fiber_cond_wait (any mutex). A worker parks only if that leaves another
// iterating worker unparked; whoever stops iterating broadcasts on every mutex afterwards, so a parked worker is always owed a wake-up.
static _Atomic int iterating_total, parked_total;
static _Atomic long total_sections, trylock_ok, trylock_fail;
static vp_counter_t *c_deferred, *c_sections, *c_try_ok, *c_try_fail, *c_yield_inside, *c_sleep_inside, *c_trials, *c_contended;

__attribute__((noinline)) static void vp_payload_section(mx_t* m, int id) {
  if (m->pa != m->pb)
    vp_violation("C03", "mutex:payload-torn", "trial %d: fiber %d entered the critical section and sees pa=%ld pb=%ld (previous owner's writes not visible / two owners)",
                 trial, id, m->pa, m->pb);
  m->pa++;
  m->order_hash = m->order_hash * 1099511628211ULL + (uint64_t)id + 1;
}
__attribute__((noinline)) static void vp_payload_section_end(mx_t* m) {
  m->pb++;
  m->sections++;
}

// hammer mode: tight lock/unlock loops against tight trylock loops (no yields or sleeps inside), for windows that have no
// hook point (e.g. inside trylock itself); a waiter stranded on a free mutex shows up at logical quiescence
static _Atomic int hammer_lockers_left;
static void* hammer_locker(void* a) {
  fb_slot_t* s = (fb_slot_t*)a;
  mx_t* m = &mx[0];
  int i;
  s->a = 0;
  for (i = 0; i < iters * 40; ++i) {
    FB_BLOCKING(s, "C03 fiber_mutex_lock", fiber_mutex_lock(&m->mu));
    const int prev = atomic_fetch_add_explicit(&m->occ, 1, OCC_ORDER);
    if (prev != 0) vp_violation("C03", "mutex:two-owners", "trial %d (hammer): fiber %d acquired the mutex while %d other fiber(s) are inside", trial, s->id, prev);
    vp_payload_section(m, s->id);
    vp_payload_section_end(m);
    atomic_fetch_sub_explicit(&m->occ, 1, OCC_ORDER);
    fiber_mutex_unlock(&m->mu);
    vp_add(c_sections, 1);
  }
  atomic_fetch_sub(&hammer_lockers_left, 1);
  return NULL;
}
static void* hammer_trylocker(void* a) {
  fb_slot_t* s = (fb_slot_t*)a;
  mx_t* m = &mx[0];
  long n = 0;
  while (atomic_load(&hammer_lockers_left) > 0) {
    if (fiber_mutex_trylock(&m->mu) == FIBER_SUCCESS) {
      const int prev = atomic_fetch_add_explicit(&m->occ, 1, OCC_ORDER);
      if (prev != 0) vp_violation("C03", "mutex:two-owners", "trial %d (hammer): trylock by fiber %d succeeded while %d other fiber(s) are inside", trial, s->id, prev);
      vp_payload_section(m, s->id);
      vp_payload_section_end(m);
      atomic_fetch_sub_explicit(&m->occ, 1, OCC_ORDER);
      fiber_mutex_unlock(&m->mu);
      vp_add(c_try_ok, 1);
      vp_add(c_sections, 1);
    } else {
      vp_add(c_try_fail, 1);
    }
    if ((++n & 63) == 0) fiber_yield();
    vp_progress();
  }
  return NULL;
}

// logical check (watchdog thread): a fiber is suspended inside fiber_mutex_lock with no wake-up pending while the mutex
// counter says "free, nobody announced" - in a correct mutex that combination cannot exist, however long one looks
static _Atomic int mutex_phase_active;
static void mutex_periodic(void) {
  static int streak;
  static void* last_f;
  if (!atomic_load(&mutex_phase_active)) {
    streak = 0;
    return;
  }
  const int n = atomic_load(&fb_nslots);
  int i;
  for (i = 0; i < n && i < FB_MAX_SLOTS; ++i) {
    fb_slot_t* sl = &fb_slots[i];
    const char* w = atomic_load(&sl->where);
    if (!w || strcmp(w, "C03 fiber_mutex_lock") || !sl->fiber) continue;
    vp_gfiber_t* g = vp_ghost_lookup(sl->fiber);
    if (!g || atomic_load(&g->destroyed)) continue;
    const uint64_t in0 = atomic_load(&g->switches_in);
    if (atomic_load(&g->running_on) != -1 || atomic_load(&g->pending) != 0) continue;
    mx_t* m = &mx[sl->a % MAXM];
    if (atomic_load(&m->mu.counter) != 1 || atomic_load(&m->occ) != 0) continue;
    if (atomic_load(&g->switches_in) != in0 || atomic_load(&sl->where) != w || atomic_load(&g->pending) != 0) continue;
    if (last_f == (void*)sl->fiber) {
      if (++streak >= 4) {
        vp_violation("C03", "mutex:waiter-on-free-mutex", "trial %d: fiber %d is suspended in fiber_mutex_lock with no wake-up pending while the mutex is free (counter 1, nobody inside)", trial, sl->id);
        vp_ghost_dump(stderr, 20);
        vp_finish();
      }
    } else {
      last_f = (void*)sl->fiber;
      streak = 1;
    }
    return;
  }
  streak = 0;
}

// hand-off trials: pairs (C, L) on their own mutex+cond. Every round C takes the mutex, lets L run into it (L is then the only
// announced waiter), and gives the mutex up inside fiber_cond_wait, i.e. through the unlock that the kernel thread performs while it
// completes C's context switch and that cannot itself switch contexts. L must get the mutex; it signals C and unlocks. Hundreds of
// rounds per pair so that every per-thread counter of the implementation crosses its small powers of two.
typedef struct {
  fiber_mutex_t mu;
  fiber_cond_t cv;
  _Atomic int turn, l_trying, occ;
  long rounds, c_woken;
  char pad[64];
} ho_t;
static ho_t ho[8];
static void* handoff_c(void* a) {
  fb_slot_t* s = (fb_slot_t*)a;
  ho_t* h = &ho[s->c];
  long r;
  for (r = 0; r < h->rounds; ++r) {
    FB_BLOCKING(s, "C03 fiber_mutex_lock (hand-off pair)", fiber_mutex_lock(&h->mu));
    if (atomic_fetch_add(&h->occ, 1) != 0) vp_violation("C03", "mutex:two-owners", "trial %d (hand-off): C of pair %ld acquired the mutex while L is inside", trial, s->c);
    atomic_store(&h->turn, 1);
    int spins = 0;
    while (!atomic_load(&h->l_trying) && ++spins < 200) fiber_yield();
    if (vp_rand(&s->rng) & 1) fiber_yield();  // usually L is now suspended as the announced waiter; sometimes it is still on its way
    atomic_fetch_sub(&h->occ, 1);
    FB_BLOCKING(s, "C03 fiber_cond_wait (mutex handed over by the deferred unlock, reacquired on return)", fiber_cond_wait(&h->cv, &h->mu));
    if (atomic_fetch_add(&h->occ, 1) != 0) vp_violation("C03", "mutex:two-owners", "trial %d (hand-off): C of pair %ld returned from fiber_cond_wait while L is inside", trial, s->c);
    atomic_fetch_sub(&h->occ, 1);
    FB_BLOCKING(s, "C03 fiber_mutex_unlock", fiber_mutex_unlock(&h->mu));
    vp_add(c_deferred, 1);
    vp_add(c_sections, 1);
  }
  return NULL;
}
static void* handoff_l(void* a) {
  fb_slot_t* s = (fb_slot_t*)a;
  ho_t* h = &ho[s->c];
  long r;
  for (r = 0; r < h->rounds; ++r) {
    while (atomic_load(&h->turn) != 1) fiber_yield();
    atomic_store(&h->l_trying, 1);
    s->a = 0;
    FB_BLOCKING(s, "C03 fiber_mutex_lock (hand-off from the deferred unlock)", fiber_mutex_lock(&h->mu));
    if (atomic_fetch_add(&h->occ, 1) != 0) vp_violation("C03", "mutex:two-owners", "trial %d (hand-off): L of pair %ld acquired the mutex while C is inside", trial, s->c);
    atomic_store(&h->l_trying, 0);
    atomic_store(&h->turn, 0);
    fiber_cond_signal(&h->cv);
    atomic_fetch_sub(&h->occ, 1);
    FB_BLOCKING(s, "C03 fiber_mutex_unlock", fiber_mutex_unlock(&h->mu));
    vp_add(c_sections, 1);
  }
  return NULL;
}

static void* mutex_fiber(void* a) {
  fb_slot_t* s = (fb_slot_t*)a;
  int i;
  for (i = 0; i < iters; ++i) {
    mx_t* m = &mx[vp_rand(&s->rng) % (unsigned)nm];
    const unsigned r = (unsigned)(vp_rand(&s->rng) % 100);
    int got = 0;
    if (r < 30) {
      const uint64_t sw = vp_self_switches();
      const int ok = fiber_mutex_trylock(&m->mu);
      if (vp_self_switches() != sw)
        vp_violation("C03", "mutex:trylock-blocked", "trial %d: fiber %d was context-switched inside fiber_mutex_trylock", trial, s->id);
      if (ok == FIBER_SUCCESS) {
        got = 1;
        vp_add(c_try_ok, 1);
      } else {
        vp_add(c_try_fail, 1);
      }
    }
    s->a = (long)(m - mx);
    if (!got) FB_BLOCKING(s, "C03 fiber_mutex_lock", fiber_mutex_lock(&m->mu));
    const int prev = atomic_fetch_add_explicit(&m->occ, 1, OCC_ORDER);
    if (prev != 0)
      vp_violation("C03", "mutex:two-owners", "trial %d: fiber %d acquired mutex %d (%s) while %d other fiber(s) are inside", trial, s->id,
                   (int)(m - mx), got ? "trylock" : "lock", prev);
    vp_payload_section(m, s->id);
    const unsigned in = (unsigned)(vp_rand(&s->rng) % 64);
    if (in < 4) {
      vp_add(c_yield_inside, 1);
      fiber_yield();
    } else if (in == 1 && (vp_rand(&s->rng) & 3) == 0) {
      vp_add(c_sleep_inside, 1);
      usleep(100);
    } else {
      fb_spin(&s->rng, 40);
    }
    vp_payload_section_end(m);
    if (deferred) {
      int park = 0;
      if ((vp_rand(&s->rng) & 3) == 0) {
        if (atomic_fetch_add(&parked_total, 1) + 1 <= atomic_load(&iterating_total) - 1) park = 1;
        else atomic_fetch_sub(&parked_total, 1);
      }
      if (park) {
        m->parked++;
        atomic_fetch_sub_explicit(&m->occ, 1, OCC_ORDER);
        vp_add(c_deferred, 1);
        FB_BLOCKING(s, "C03 fiber_cond_wait (mutex handed over by the deferred unlock, reacquired on return)", fiber_cond_wait(&m->cv, &m->mu));
        const int p2 = atomic_fetch_add_explicit(&m->occ, 1, OCC_ORDER);
        if (p2 != 0)
          vp_violation("C03", "mutex:two-owners", "trial %d: fiber %d came back from fiber_cond_wait owning mutex %d while %d other fiber(s) are inside", trial, s->id,
                       (int)(m - mx), p2);
        m->parked--;
        atomic_fetch_sub(&parked_total, 1);
        vp_payload_section(m, s->id);
        vp_payload_section_end(m);
        m->sections--;  // the second half of a split section is not a section of its own
        m->pa--;
        m->pb--;
      } else if (m->parked > 0) {
        fiber_cond_signal(&m->cv);
      }
    }
    atomic_fetch_sub_explicit(&m->occ, 1, OCC_ORDER);
    FB_BLOCKING(s, "C03 fiber_mutex_unlock", fiber_mutex_unlock(&m->mu));
    atomic_fetch_add(&total_sections, 1);
    vp_add(c_sections, 1);
    if ((vp_rand(&s->rng) & 7) == 0) fiber_yield();
  }
  if (deferred) {
    int k;
    atomic_fetch_sub(&iterating_total, 1);
    for (k = 0; k < nm; ++k) {
      mx_t* m = &mx[k];
      s->a = k;
      FB_BLOCKING(s, "C03 fiber_mutex_lock", fiber_mutex_lock(&m->mu));
      fiber_cond_broadcast(&m->cv);
      FB_BLOCKING(s, "C03 fiber_mutex_unlock", fiber_mutex_unlock(&m->mu));
    }
  }
  return NULL;
}

void* sy_mutex_root(void* x) {
  (void)x;
  const int trials = (int)vp_param("trials", 30);
  const int maxf = (int)vp_param("maxf", 64);
  iters = (int)vp_param("iters", 60);
  c_sections = vp_counter("mutex_sections");
  c_try_ok = vp_counter("mutex_trylock_ok");
  c_try_fail = vp_counter("mutex_trylock_fail");
  c_yield_inside = vp_counter("mutex_yield_inside_section");
  c_sleep_inside = vp_counter("mutex_sleep_inside_section");
  c_trials = vp_counter("mutex_trials");
  c_contended = vp_counter("mutex_contended_acquisitions");
  c_deferred = vp_counter("mutex_released_by_deferred_unlock");
  uint64_t rng = vp_mix(vp_cfg.seed, 303);
  vp_set_periodic(mutex_periodic);
  for (trial = 0; trial < trials; ++trial) {
    nm = 1 + (int)(vp_rand(&rng) % MAXM);
    const int F = 2 + (int)(vp_rand(&rng) % (unsigned)(maxf - 1));
    int i;
    for (i = 0; i < nm; ++i) {
      memset(&mx[i], 0, sizeof(mx[i]));
      fiber_mutex_init(&mx[i].mu);
    }
    fiber_manager_stats_t st0, st1;
    fiber_manager_all_stats(&st0);
    fb_slots_reset();
    fb_slot_t* sl[256];
    const int hammer = (trial % 4) == 2, handoff = (trial % 4) == 3;
    deferred = 0;
    if (hammer) {
      nm = 1;
      const int L = 2 + (int)(vp_rand(&rng) % 12), T = 1 + (int)(vp_rand(&rng) % 6);
      atomic_store(&hammer_lockers_left, L);
      for (i = 0; i < L; ++i) sl[i] = fb_spawn(hammer_locker, NULL);
      for (; i < L + T; ++i) sl[i] = fb_spawn(hammer_trylocker, NULL);
      vp_count("mutex_hammer_trials", 1);
    } else if (handoff) {
      nm = 0;
      const int P = 1 + (int)(vp_rand(&rng) % 4);
      int k;
      for (k = 0; k < P; ++k) {
        memset(&ho[k], 0, sizeof(ho[k]));
        fiber_mutex_init(&ho[k].mu);
        fiber_cond_init(&ho[k].cv);
        ho[k].rounds = 300 + (long)(vp_rand(&rng) % 500);
      }
      for (i = 0, k = 0; k < P; ++k) {
        sl[i++] = fb_spawn(handoff_c, (void*)(intptr_t)k);
        sl[i++] = fb_spawn(handoff_l, (void*)(intptr_t)k);
      }
      vp_count("mutex_handoff_trials", 1);
    } else {
      deferred = (trial % 4) == 1;
      int k;
      for (k = 0; k < nm; ++k) {
        fiber_cond_init(&mx[k].cv);
      }
      atomic_store(&iterating_total, F < 256 ? F : 256);
      atomic_store(&parked_total, 0);
      for (i = 0; i < F && i < 256; ++i) sl[i] = fb_spawn(mutex_fiber, NULL);
    }
    atomic_store(&mutex_phase_active, 1);
    fb_join_all(sl, i);
    atomic_store(&mutex_phase_active, 0);
    fiber_manager_all_stats(&st1);
    if (handoff) {
      int k;
      for (k = 0; k < 8 && ho[k].rounds; ++k) {
        if (atomic_load(&ho[k].mu.counter) != 1)
          vp_violation("C03", "mutex:not-free-at-end", "trial %d (hand-off): pair %d finished but the mutex counter is %d", trial, k, atomic_load(&ho[k].mu.counter));
        fiber_cond_destroy(&ho[k].cv);
        fiber_mutex_destroy(&ho[k].mu);
        ho[k].rounds = 0;
      }
    }
    long sum = 0;
    uint64_t sig = (uint64_t)F * 131 + (uint64_t)nm;
    for (i = 0; i < nm; ++i) {
      sum += mx[i].sections;
      sig = vp_mix(sig, mx[i].order_hash);
      if (mx[i].pa != mx[i].pb || mx[i].pa != mx[i].sections)
        vp_violation("C03", "mutex:payload-count", "trial %d: mutex %d payload counters pa=%ld pb=%ld sections=%ld", trial, i, mx[i].pa, mx[i].pb, mx[i].sections);
      if (atomic_load(&mx[i].mu.counter) != 1)
        vp_violation("C03", "mutex:not-free-at-end", "trial %d: all fibers finished but mutex %d counter is %d (expected 1)", trial, i,
                     atomic_load(&mx[i].mu.counter));
      if (!hammer) fiber_cond_destroy(&mx[i].cv);
      fiber_mutex_destroy(&mx[i].mu);
    }
    if (!hammer && !handoff && sum != (long)F * iters)
      vp_violation("C03", "mutex:lost-update", "trial %d: %ld sections counted under the mutexes, expected %ld", trial, sum, (long)F * iters);
    const long contended = (long)(st1.lock_contention_count - st0.lock_contention_count);
    vp_add(c_contended, contended);
    vp_count("lib_wake_mpsc_spin_count", (long)(st1.wake_mpsc_spin_count - st0.wake_mpsc_spin_count));
    if (contended > 0) vp_sig(sig);
    if (trial < 2) vp_sample("mutex trial %d: %d fibers x %d iterations on %d mutex(es), %d kernel threads: %ld contended acquisitions, acquisition-order hash %llx",
                             trial, F, iters, nm, vp_cfg.threads, contended, (unsigned long long)sig);
    vp_add(c_trials, 1);
    vp_case();
    if (vp_violation_count()) break;
  }
  return NULL;
}
