#define _GNU_SOURCE
#include "vp_rt.h"

#include <errno.h>
#include <pthread.h>
#include <sched.h>
#include <signal.h>
#include <stdarg.h>
#include <unistd.h>
#include <sys/stat.h>
#include <sys/syscall.h>
#include <fcntl.h>

vp_cfg_t vp_cfg;
_Atomic uint64_t vp_progress_ctr;
_Atomic uint64_t vp_case_ctr;

static int g_argc;
static char** g_argv;
static uint64_t g_t0;

// ------------------------------------------------------------------ names
static const char* const point_names[FV_POINT_MAX] = {
    [0] = "none",
    [FV_SWITCH_PRE] = "SWITCH_PRE",
    [FV_SWITCH_POST] = "SWITCH_POST",
    [FV_MAINT_PUBLISH] = "MAINT_PUBLISH",
    [FV_SCHEDULE] = "SCHEDULE",
    [FV_SCHEDULED] = "SCHEDULED",
    [FV_STEAL] = "STEAL",
    [FV_SAVING_SKIP] = "SAVING_SKIP",
    [FV_IDLE] = "IDLE",
    [FV_FIBER_CREATE] = "FIBER_CREATE",
    [FV_FIBER_DESTROY] = "FIBER_DESTROY",
    [FV_WAIT_MPSC_PRE_PUSH] = "WAIT_MPSC_PRE_PUSH",
    [FV_WAIT_MPMC] = "WAIT_MPMC",
    [FV_MPSC_MID] = "MPSC_MID",
    [FV_SPSC_MID] = "SPSC_MID",
    [FV_MPMC_PUSH_MID] = "MPMC_PUSH_MID",
    [FV_MPMC_POP_PRE_CAS] = "MPMC_POP_PRE_CAS",
    [FV_RB_PUSH_MID] = "RB_PUSH_MID",
    [FV_RB_POP_MID] = "RB_POP_MID",
    [FV_WSD_POP_MID] = "WSD_POP_MID",
    [FV_WSD_STEAL_PRE_CAS] = "WSD_STEAL_PRE_CAS",
    [FV_WSD_GROW] = "WSD_GROW",
    [FV_CAS2_PRE] = "CAS2_PRE",
    [FV_CPU_RELAX] = "CPU_RELAX",
    [FV_SIGNAL_WAIT_REGISTERED] = "SIGNAL_WAIT_REGISTERED",
    [FV_WQ_PUSH_MID] = "WQ_PUSH_MID",
    [FV_WQ_RETIRE_PRE_SUB] = "WQ_RETIRE_PRE_SUB",
    [FV_SLEEP_REGISTERED] = "SLEEP_REGISTERED",
    [FV_FD_WAIT_REGISTERED] = "FD_WAIT_REGISTERED",
    [FV_HP_SCAN_SNAPSHOT] = "HP_SCAN_SNAPSHOT",
    [FV_TIMER_TICKS] = "TIMER_TICKS",
    [FV_FIBER_FINISHING] = "FIBER_FINISHING",
    [FV_SPIN_TICKET] = "SPIN_TICKET",
    [FV_WAKE_SPIN] = "WAKE_SPIN",
    [FV_SET_AND_WAIT] = "SET_AND_WAIT",
    [FV_SCHED_SWAP] = "SCHED_SWAP",
    [FV_HP_PUBLISH_PRE] = "HP_PUBLISH_PRE",
    [FV_HP_RELEASED] = "HP_RELEASED",
    [FV_COND_SIGNAL_MID] = "COND_SIGNAL_MID",
    [FV_SEM_POST_MID] = "SEM_POST_MID",
    [FV_RW_HANDOFF] = "RW_HANDOFF",
    [FV_BARRIER_LAST] = "BARRIER_LAST",
    [FV_JOIN_CLAIMED] = "JOIN_CLAIMED",
    [FV_COMPLETION_CLAIMED] = "COMPLETION_CLAIMED",
    [FV_MUTEX_UNLOCK_MID] = "MUTEX_UNLOCK_MID",
    [FV_TIMER_READ] = "TIMER_READ",
};

#define VP_NPOINTS 128  // library points < FV_POINT_MAX, harness-private points 100..127

const char* vp_point_name(int p) {
  static char buf[VP_NPOINTS][16];
  if (p > 0 && p < FV_POINT_MAX && point_names[p]) return point_names[p];
  if (p >= 0 && p < VP_NPOINTS) {
    snprintf(buf[p], sizeof(buf[p]), "H%d", p);
    return buf[p];
  }
  return "?";
}

int vp_point_by_name(const char* name) {
  int i;
  for (i = 1; i < FV_POINT_MAX; ++i)
    if (point_names[i] && !strcmp(point_names[i], name)) return i;
  if (name[0] == 'H') return atoi(name + 1);
  return atoi(name);
}

// ------------------------------------------------------------------ params
const char* vp_param_str(const char* name, const char* dflt) {
  size_t n = strlen(name);
  int i;
  for (i = 1; i < g_argc; ++i)
    if (!strncmp(g_argv[i], name, n) && g_argv[i][n] == '=') return g_argv[i] + n + 1;
  return dflt;
}
long vp_param(const char* name, long dflt) {
  const char* s = vp_param_str(name, NULL);
  return s ? strtol(s, NULL, 0) : dflt;
}

void vp_init(int argc, char** argv) {
  g_argc = argc;
  g_argv = argv;
  g_t0 = vp_now_ns();
  setvbuf(stdout, NULL, _IOLBF, 0);
  memset(&vp_cfg, 0, sizeof(vp_cfg));
  vp_cfg.seed = (uint64_t)strtoull(vp_param_str("seed", "1"), NULL, 0);
  vp_cfg.threads = (int)vp_param("threads", 4);
  const char* m = vp_param_str("mode", "monitor");
  if (!strcmp(m, "nohook")) vp_cfg.mode = VP_MODE_NOHOOK;
  else if (!strcmp(m, "monitor")) vp_cfg.mode = VP_MODE_MONITOR;
  else if (!strcmp(m, "jitter")) vp_cfg.mode = VP_MODE_JITTER;
  else if (!strcmp(m, "stall")) vp_cfg.mode = VP_MODE_STALL;
  else if (!strcmp(m, "skew")) vp_cfg.mode = VP_MODE_SKEW;
  else {
    fprintf(stderr, "bad mode %s\n", m);
    exit(2);
  }
  vp_cfg.stall_point = vp_point_by_name(vp_param_str("stall_point", "0"));
  vp_cfg.stall_every = (int)vp_param("stall_every", 1);
  if (vp_cfg.stall_every < 1) vp_cfg.stall_every = 1;
  vp_cfg.stall_us_lo = (int)vp_param("stall_us_lo", 200);
  vp_cfg.stall_us_hi = (int)vp_param("stall_us_hi", 3000);
  vp_cfg.watchdog_s = (int)vp_param("watchdog_s", 120);
  vp_cfg.out = vp_param_str("out", NULL);
  vp_cfg.sub = vp_param_str("sub", "");
}

// ------------------------------------------------------------------ delays
void vp_busy_ns(uint64_t ns) {
  const uint64_t end = vp_now_ns() + ns;
  while (vp_now_ns() < end) {
    __asm__ __volatile__("pause" ::: "memory");
  }
}
void vp_real_sleep_us(uint64_t us) {
  struct timespec ts;
  ts.tv_sec = us / 1000000;
  ts.tv_nsec = (us % 1000000) * 1000;
  while (clock_nanosleep(CLOCK_MONOTONIC, 0, &ts, &ts) == EINTR) {
  }
}

// ------------------------------------------------------------------ tid
static _Atomic int g_next_tid;
static __thread int t_tid = -1;
static pthread_t g_pthreads[VP_MAX_THREADS];
static _Atomic int g_pthread_known[VP_MAX_THREADS];
static _Atomic long g_linux_tid[VP_MAX_THREADS];
__attribute__((noinline)) int vp_tid(void) {
  if (t_tid < 0) {
    t_tid = atomic_fetch_add(&g_next_tid, 1);
    if (t_tid < VP_MAX_THREADS) {
      g_pthreads[t_tid] = pthread_self();
      atomic_store(&g_linux_tid[t_tid], (long)syscall(SYS_gettid));
      atomic_store(&g_pthread_known[t_tid], 1);
    }
    if (t_tid >= VP_MAX_THREADS) {
      fprintf(stderr, "too many kernel threads\n");
      _exit(2);
    }
  }
  return t_tid;
}

// ------------------------------------------------------------------ counters
#define VP_MAX_COUNTERS 256
static vp_counter_t g_counters[VP_MAX_COUNTERS];
static _Atomic int g_ncounters;
static pthread_mutex_t g_cold = PTHREAD_MUTEX_INITIALIZER;

vp_counter_t* vp_counter(const char* name) {
  int i, n = atomic_load(&g_ncounters);
  for (i = 0; i < n; ++i)
    if (!strcmp(g_counters[i].name, name)) return &g_counters[i];
  pthread_mutex_lock(&g_cold);
  n = atomic_load(&g_ncounters);
  for (i = 0; i < n; ++i)
    if (!strcmp(g_counters[i].name, name)) {
      pthread_mutex_unlock(&g_cold);
      return &g_counters[i];
    }
  if (n >= VP_MAX_COUNTERS) {
    fprintf(stderr, "too many counters\n");
    _exit(2);
  }
  g_counters[n].name = strdup(name);
  g_counters[n].v = 0;
  atomic_store(&g_ncounters, n + 1);
  pthread_mutex_unlock(&g_cold);
  return &g_counters[n];
}
void vp_count(const char* name, long n) { vp_add(vp_counter(name), n); }
void vp_max(vp_counter_t* c, long v) {
  long cur = atomic_load(&c->v);
  while (v > cur && !atomic_compare_exchange_weak(&c->v, &cur, v)) {
  }
}
void vp_min(vp_counter_t* c, long v) {
  long cur = atomic_load(&c->v);
  while ((cur == 0 || v < cur) && !atomic_compare_exchange_weak(&c->v, &cur, v)) {
  }
}

// ------------------------------------------------------------------ signatures
#define VP_SIG_BITS 17
static _Atomic uint64_t g_sigs[1 << VP_SIG_BITS];
static _Atomic long g_nsigs;
void vp_sig(uint64_t h) {
  if (!h) h = 1;
  uint64_t i = vp_mix(h, 7) & ((1u << VP_SIG_BITS) - 1);
  int probes;
  for (probes = 0; probes < 64; ++probes) {
    uint64_t cur = atomic_load_explicit(&g_sigs[i], memory_order_relaxed);
    if (cur == h) return;
    if (cur == 0) {
      uint64_t exp = 0;
      if (atomic_compare_exchange_strong(&g_sigs[i], &exp, h)) {
        atomic_fetch_add(&g_nsigs, 1);
        return;
      }
      if (exp == h) return;
    }
    i = (i + 1) & ((1u << VP_SIG_BITS) - 1);
  }
}
long vp_sig_count(void) { return atomic_load(&g_nsigs); }

// ------------------------------------------------------------------ samples / violations / notes
#define VP_MAX_SAMPLES 12
#define VP_MAX_VIOL 40
#define VP_MAX_NOTES 24
static char* g_samples[VP_MAX_SAMPLES];
static int g_nsamples;
typedef struct {
  char prop[8];
  char key[96];
  char* detail;
} vp_viol_t;
static vp_viol_t g_viol[VP_MAX_VIOL];
static _Atomic long g_nviol;
static char* g_notes[VP_MAX_NOTES];
static int g_nnotes;
static char* g_inconclusive;

static char* vfmt(const char* fmt, va_list ap) {
  char* s = NULL;
  if (vasprintf(&s, fmt, ap) < 0) return strdup("?");
  return s;
}
void vp_sample(const char* fmt, ...) {
  va_list ap;
  va_start(ap, fmt);
  char* s = vfmt(fmt, ap);
  va_end(ap);
  pthread_mutex_lock(&g_cold);
  if (g_nsamples < VP_MAX_SAMPLES) g_samples[g_nsamples++] = s;
  else free(s);
  pthread_mutex_unlock(&g_cold);
}
void vp_note(const char* fmt, ...) {
  va_list ap;
  va_start(ap, fmt);
  char* s = vfmt(fmt, ap);
  va_end(ap);
  pthread_mutex_lock(&g_cold);
  if (g_nnotes < VP_MAX_NOTES) g_notes[g_nnotes++] = s;
  else free(s);
  pthread_mutex_unlock(&g_cold);
}
void vp_violation(const char* prop, const char* key, const char* fmt, ...) {
  va_list ap;
  va_start(ap, fmt);
  char* s = vfmt(fmt, ap);
  va_end(ap);
  long n = atomic_fetch_add(&g_nviol, 1);
  fprintf(stderr, "[vp] VIOLATION %s key=%s: %s\n", prop, key, s);
  pthread_mutex_lock(&g_cold);
  if (n < VP_MAX_VIOL) {
    snprintf(g_viol[n].prop, sizeof(g_viol[n].prop), "%s", prop);
    snprintf(g_viol[n].key, sizeof(g_viol[n].key), "%s", key);
    g_viol[n].detail = s;
  } else {
    free(s);
  }
  pthread_mutex_unlock(&g_cold);
}
long vp_violation_count(void) { return atomic_load(&g_nviol); }

// ------------------------------------------------------------------ hook engine
#define VP_MAX_OBS 8
static vp_observer_t g_obs[VP_MAX_OBS];
static int g_nobs;
typedef struct {
  long hits[VP_NPOINTS];
  long delays[VP_NPOINTS];
  uint64_t rng;
  int prio;
  char pad[64];
} vp_thr_t;
static vp_thr_t g_thr[VP_MAX_THREADS];
static _Atomic long g_stall_ctr;

void vp_add_observer(vp_observer_t fn) {
  if (g_nobs < VP_MAX_OBS) g_obs[g_nobs++] = fn;
}
long vp_hook_hits(int p) {
  long s = 0;
  int i;
  for (i = 0; i < VP_MAX_THREADS; ++i) s += __atomic_load_n(&g_thr[i].hits[p], __ATOMIC_RELAXED);
  return s;
}
long vp_hook_delays(int p) {
  long s = 0;
  int i;
  for (i = 0; i < VP_MAX_THREADS; ++i) s += __atomic_load_n(&g_thr[i].delays[p], __ATOMIC_RELAXED);
  return s;
}

static inline void perturb(int point, vp_thr_t* t) {
  switch (vp_cfg.mode) {
    case VP_MODE_JITTER: {
      uint64_t r = vp_rand(&t->rng);
      unsigned div = (point == FV_CPU_RELAX) ? 64 : 8;
      if ((r & 0xffff) % div == 0) {
        if (((r >> 16) & 0xff) < 8 && point != FV_CPU_RELAX) {
          // rare long preemption of the kernel thread
          t->delays[point]++;
          if ((r >> 24) & 1) sched_yield();
          else vp_real_sleep_us(50 + ((r >> 32) % 450));
        } else {
          t->delays[point]++;
          vp_busy_ns(((r >> 32) % 20000));
        }
      }
      break;
    }
    case VP_MODE_STALL:
      if (point == vp_cfg.stall_point) {
        long k = atomic_fetch_add_explicit(&g_stall_ctr, 1, memory_order_relaxed);
        if (k % vp_cfg.stall_every == 0) {
          uint64_t r = vp_rand(&t->rng);
          uint64_t us = vp_cfg.stall_us_lo + r % (uint64_t)(vp_cfg.stall_us_hi - vp_cfg.stall_us_lo + 1);
          t->delays[point]++;
          if (us >= 1000) vp_real_sleep_us(us);
          else vp_busy_ns(us * 1000);
        }
      }
      break;
    case VP_MODE_SKEW:
      if (point != FV_CPU_RELAX) {
        uint64_t r = vp_rand(&t->rng);
        if ((r & 0x3fff) == 0) t->prio = (int)((r >> 20) % 8);  // priority change point
        if (t->prio) {
          t->delays[point]++;
          vp_busy_ns((uint64_t)t->prio * 700);
        }
      }
      break;
    default:
      break;
  }
}

static void vp_dispatch(int point, const void* a, const void* b) {
  const int tid = vp_tid();
  vp_thr_t* const t = &g_thr[tid];
  if (point >= 0 && point < VP_NPOINTS) t->hits[point]++;
  int i;
  for (i = 0; i < g_nobs; ++i) g_obs[i](point, a, b, tid);
  if (vp_cfg.mode > VP_MODE_MONITOR) perturb(point, t);
}

void vp_point(int point, const void* a, const void* b) {
  if (vp_cfg.mode != VP_MODE_NOHOOK) vp_dispatch(point, a, b);
}

static _Atomic int g_finishing;
// ---- "preempt" perturbation: a plain pthread interrupts the registered kernel threads every few hundred microseconds
// and the handler burns 20-300 us. This is what the OS scheduler may do to a kernel thread at ANY instruction, so it
// reaches windows that have no hook point. The handler only spins on the monotonic clock (async-signal-safe).
static _Atomic long g_preempts;
static void preempt_handler(int sig) {
  (void)sig;
  static __thread uint64_t r;
  if (!r) r = vp_now_ns() | 1;
  r = r * 6364136223846793005ULL + 1442695040888963407ULL;
  const uint64_t ns = 20000 + (r >> 33) % 280000;
  const uint64_t end = vp_now_ns() + ns;
  while (vp_now_ns() < end) {
  }
  atomic_fetch_add_explicit(&g_preempts, 1, memory_order_relaxed);
}
static void* preempter(void* a) {
  (void)a;
  uint64_t r = vp_mix(vp_cfg.seed, 31337);
  const long period_us = vp_param("preempt_us", 300);
  for (;;) {
    vp_real_sleep_us((uint64_t)(period_us / 2 + (long)(vp_rand(&r) % (unsigned long)period_us)));
    if (atomic_load(&g_finishing)) return NULL;
    const int n = atomic_load(&g_next_tid);
    if (n <= 0) continue;
    const int victim = (int)(vp_rand(&r) % (unsigned)(n < VP_MAX_THREADS ? n : VP_MAX_THREADS));
    if (atomic_load(&g_pthread_known[victim])) pthread_kill(g_pthreads[victim], SIGUSR1);
  }
  return NULL;
}
static int g_preempt_on;
// targeted use of the same perturbation: interrupt thread t now (no-op unless the run has preempt=1)
int vp_preempt_now(pthread_t t) {
  if (!g_preempt_on) return 0;
  return pthread_kill(t, SIGUSR1) == 0;
}
static void preempt_start(void) {
  g_preempt_on = 1;
  struct sigaction sa;
  memset(&sa, 0, sizeof(sa));
  sa.sa_handler = preempt_handler;
  sa.sa_flags = SA_RESTART;
  sigemptyset(&sa.sa_mask);
  sigaction(SIGUSR1, &sa, NULL);
  pthread_t t;
  pthread_attr_t attr;
  pthread_attr_init(&attr);
  pthread_attr_setstacksize(&attr, 1 << 20);
  sigset_t block, old;
  sigemptyset(&block);
  sigaddset(&block, SIGUSR1);
  pthread_sigmask(SIG_BLOCK, &block, &old);  // the preempter itself (and nothing else) keeps the signal blocked
  pthread_create(&t, &attr, preempter, NULL);
  pthread_sigmask(SIG_SETMASK, &old, NULL);
  pthread_detach(t);
}

void vp_hook_install(void) {
  if (vp_param("preempt", 0)) preempt_start();
  int i;
  for (i = 0; i < VP_MAX_THREADS; ++i) {
    g_thr[i].rng = vp_mix(vp_cfg.seed, 1000 + i);
    g_thr[i].prio = (int)(vp_mix(vp_cfg.seed, 2000 + i) % 8);
  }
  if (vp_cfg.mode != VP_MODE_NOHOOK) fiber_verif_hook = &vp_dispatch;
}

// ------------------------------------------------------------------ result file
static void json_str(FILE* f, const char* s) {
  fputc('"', f);
  for (; s && *s; ++s) {
    unsigned char c = (unsigned char)*s;
    if (c == '"' || c == '\\') {
      fputc('\\', f);
      fputc(c, f);
    } else if (c == '\n') fputs("\\n", f);
    else if (c == '\t') fputs("\\t", f);
    else if (c < 0x20 || c >= 0x7f) fprintf(f, "\\u%04x", c);
    else fputc(c, f);
  }
  fputc('"', f);
}

static _Atomic int g_done;

static void write_result(const char* status) {
  FILE* f = vp_cfg.out ? fopen(vp_cfg.out, "w") : stdout;
  if (!f) f = stdout;
  int i;
  vp_ghost_report_counters();
  fprintf(f, "{\"status\":");
  json_str(f, status);
  fprintf(f, ",\"seed\":%llu,\"threads\":%d,\"mode\":%d,\"sub\":", (unsigned long long)vp_cfg.seed, vp_cfg.threads,
          vp_cfg.mode);
  json_str(f, vp_cfg.sub);
  fprintf(f, ",\"argv\":[");
  for (i = 1; i < g_argc; ++i) {
    if (i > 1) fputc(',', f);
    json_str(f, g_argv[i]);
  }
  fprintf(f, "],\"wall_s\":%.3f,\"progress\":%llu,\"cases\":%llu,\"distinct\":%ld", (vp_now_ns() - g_t0) / 1e9,
          (unsigned long long)atomic_load(&vp_progress_ctr), (unsigned long long)atomic_load(&vp_case_ctr), vp_sig_count());
  if (g_inconclusive) {
    fprintf(f, ",\"inconclusive\":");
    json_str(f, g_inconclusive);
  }
  fprintf(f, ",\"counters\":{");
  int n = atomic_load(&g_ncounters), first = 1;
  for (i = 0; i < n; ++i) {
    if (!first) fputc(',', f);
    first = 0;
    json_str(f, g_counters[i].name);
    fprintf(f, ":%ld", atomic_load(&g_counters[i].v));
  }
  fprintf(f, "},\"preemptions_injected\":%ld,\"hook_hits\":{", atomic_load(&g_preempts));
  first = 1;
  for (i = 0; i < VP_NPOINTS; ++i) {
    long h = vp_hook_hits(i);
    if (h) {
      if (!first) fputc(',', f);
      first = 0;
      json_str(f, vp_point_name(i));
      fprintf(f, ":%ld", h);
    }
  }
  fprintf(f, "},\"hook_delays\":{");
  first = 1;
  for (i = 0; i < VP_NPOINTS; ++i) {
    long h = vp_hook_delays(i);
    if (h) {
      if (!first) fputc(',', f);
      first = 0;
      json_str(f, vp_point_name(i));
      fprintf(f, ":%ld", h);
    }
  }
  fprintf(f, "},\"violations\":[");
  long nv = atomic_load(&g_nviol);
  if (nv > VP_MAX_VIOL) nv = VP_MAX_VIOL;
  for (i = 0; i < nv; ++i) {
    if (i) fputc(',', f);
    fprintf(f, "{\"prop\":");
    json_str(f, g_viol[i].prop);
    fprintf(f, ",\"key\":");
    json_str(f, g_viol[i].key);
    fprintf(f, ",\"detail\":");
    json_str(f, g_viol[i].detail ? g_viol[i].detail : "");
    fputc('}', f);
  }
  fprintf(f, "],\"violation_count\":%ld,\"samples\":[", atomic_load(&g_nviol));
  for (i = 0; i < g_nsamples; ++i) {
    if (i) fputc(',', f);
    json_str(f, g_samples[i]);
  }
  fprintf(f, "],\"notes\":[");
  for (i = 0; i < g_nnotes; ++i) {
    if (i) fputc(',', f);
    json_str(f, g_notes[i]);
  }
  fprintf(f, "]}\n");
  fflush(f);
  if (f != stdout) fclose(f);
}

void vp_finish(void) {
  if (atomic_exchange(&g_finishing, 1)) {
    // somebody else is already writing the result; never return
    for (;;) vp_real_sleep_us(100000);
  }
  fiber_verif_hook = 0;
  pthread_mutex_lock(&g_cold);  // wait out concurrent cold-path writers
  pthread_mutex_unlock(&g_cold);
  const long nv = atomic_load(&g_nviol);
  // a recorded violation is definite; a later wall-clock stop of the same (now wedged) process does not undo it
  write_result(nv ? "violation" : (g_inconclusive ? "inconclusive" : "ok"));
  fflush(stderr);
  _exit(nv ? 1 : (g_inconclusive ? 3 : 0));
}

void vp_inconclusive(const char* fmt, ...) {
  va_list ap;
  va_start(ap, fmt);
  char* s = vfmt(fmt, ap);
  va_end(ap);
  fprintf(stderr, "[vp] INCONCLUSIVE: %s\n", s);
  if (!atomic_load(&g_finishing)) g_inconclusive = s;
  vp_finish();
}

// ------------------------------------------------------------------ watchdog
static vp_stranded_cb_t g_on_stranded;
static void (*volatile g_periodic)(void);
void vp_set_periodic(void (*cb)(void)) { g_periodic = cb; }
static int g_runtime_mode;

void vp_mark_done(void) { atomic_store(&g_done, 1); }

// A kernel thread of the runtime that sleeps inside a data-transfer system call on a socket or pipe blocks every fiber it
// carries: the shims must keep descriptors non-blocking and park only the calling fiber. /proc/<tid>/syscall shows numbers only
// for a task that is *sleeping* in a system call ("running" otherwise). Verdict only after three consecutive looks (>= 20 ms)
// that find the same thread in the same call on the same descriptor with the same stack pointer and without a single hook hit
// in between - a contended socket lock sleeps for microseconds, a call on a really blocking descriptor for as long as the peer likes.
static void check_blocked_kernel_threads(void) {
  static long last_nr[VP_MAX_THREADS], last_fd[VP_MAX_THREADS], last_hits[VP_MAX_THREADS], streak[VP_MAX_THREADS];
  static unsigned long long last_sp[VP_MAX_THREADS];
  static int reported;
  const int n = atomic_load(&g_next_tid);
  int i, p;
  if (reported) return;
  for (i = 0; i < n && i < VP_MAX_THREADS; ++i) {
    const long lt = atomic_load(&g_linux_tid[i]);
    if (!lt || __atomic_load_n(&g_thr[i].hits[FV_SWITCH_POST], __ATOMIC_RELAXED) + __atomic_load_n(&g_thr[i].hits[FV_IDLE], __ATOMIC_RELAXED) == 0) continue;  // not a kernel thread of the fiber runtime
    long hits = 0;
    for (p = 0; p < VP_NPOINTS; ++p) hits += __atomic_load_n(&g_thr[i].hits[p], __ATOMIC_RELAXED);
    char path[64], buf[256];
    snprintf(path, sizeof(path), "/proc/self/task/%ld/syscall", lt);
    // raw system calls: the library under test interposes open/read/close and this is not one of its threads. One descriptor per
    // thread, opened once and parked at a high number: scenarios that probe "closed" descriptor numbers must not find them reused.
    static int pfd[VP_MAX_THREADS];
    if (pfd[i] == 0) {
      const int f0 = (int)syscall(SYS_openat, AT_FDCWD, path, O_RDONLY | O_CLOEXEC);
      if (f0 < 0) {
        pfd[i] = -1;
      } else {
        const int hi = (int)syscall(SYS_fcntl, f0, F_DUPFD_CLOEXEC, 600);
        if (hi >= 0) {
          syscall(SYS_close, f0);
          pfd[i] = hi;
        } else {
          pfd[i] = f0;
        }
      }
    }
    if (pfd[i] < 0) continue;
    const ssize_t r = (ssize_t)syscall(SYS_pread64, pfd[i], buf, sizeof(buf) - 1, 0L);
    if (r <= 0) continue;
    buf[r] = 0;
    long nr = -1;
    unsigned long long a[6] = {0}, sp = 0, pc = 0;
    const int got = sscanf(buf, "%ld %llx %llx %llx %llx %llx %llx %llx %llx", &nr, &a[0], &a[1], &a[2], &a[3], &a[4], &a[5], &sp, &pc);
    int io = 0;
    if (got >= 8) {
      switch (nr) {
        case SYS_read: case SYS_write: case SYS_readv: case SYS_writev: case SYS_sendto: case SYS_recvfrom: case SYS_sendmsg: case SYS_recvmsg:
        case SYS_accept: case SYS_accept4: case SYS_connect: case SYS_sendmmsg: case SYS_recvmmsg: case SYS_sendfile:
          io = 1;
          break;
        default:
          break;
      }
    }
    struct stat st;
    if (io && ((long)a[0] <= 2 || fstat((int)a[0], &st) || !(S_ISSOCK(st.st_mode) || S_ISFIFO(st.st_mode)))) io = 0;
    if (io && streak[i] > 0 && last_nr[i] == nr && last_fd[i] == (long)a[0] && last_sp[i] == sp && last_hits[i] == hits) {
      if (++streak[i] >= 3) {
        // whose fault? The library's duty is to keep the descriptors it manages non-blocking in the kernel. If this one is, the thread
        // sleeps for a reason inside the kernel (allocation, a socket lock) that no user-space code controls: noted, not judged.
        const long fl = syscall(SYS_fcntl, (int)a[0], F_GETFL);
        if (fl < 0 || (fl & O_NONBLOCK)) {
          char wpath[64], wchan[64] = "?";
          snprintf(wpath, sizeof(wpath), "/proc/self/task/%ld/wchan", lt);
          const int wf = (int)syscall(SYS_openat, AT_FDCWD, wpath, O_RDONLY | O_CLOEXEC);
          if (wf >= 0) {
            const ssize_t wr = (ssize_t)syscall(SYS_read, wf, wchan, sizeof(wchan) - 1);
            if (wr > 0) wchan[wr] = 0;
            syscall(SYS_close, wf);
          }
          vp_note("kernel thread %d slept inside system call %ld on descriptor %ld for three looks although the descriptor is non-blocking (flags %lx, wchan %s): kernel-internal wait, not judged",
                  i, nr, (long)a[0], fl, wchan);
          vp_count("io_kernel_internal_sleeps_not_judged", 1);
          streak[i] = 0;
          continue;
        }
        vp_violation("C08", "io:kernel-thread-blocked",
                     "kernel thread %d of the runtime has been sleeping inside system call %ld on descriptor %ld (a %s whose file status flags lack O_NONBLOCK) for three consecutive looks "
                     "without running any fiber: the call blocked the whole thread instead of only the calling fiber",
                     i, nr, (long)a[0], S_ISSOCK(st.st_mode) ? "socket" : "pipe");
        reported = 1;
        streak[i] = 0;
      }
    } else {
      streak[i] = io ? 1 : 0;
    }
    last_nr[i] = nr;
    last_fd[i] = (long)a[0];
    last_sp[i] = sp;
    last_hits[i] = hits;
  }
}

static void* wd_main(void* arg) {
  (void)arg;
  const uint64_t start = vp_now_ns();
  const long livelock_hits = vp_param("livelock_hits", 30000000);
  const long q_need = vp_param("quiesce_samples", 4);
  uint64_t last_p = atomic_load(&vp_progress_ctr);
  long base_h = 0, base_rx = 0, base_ws = 0;
  // an announced waiter enqueues within a few instructions; half a billion futile looks for it (about ten seconds of a
  // waker doing nothing else, with no client operation completing anywhere) is a waiter that will never come
  const long wake_spin_limit = vp_param("wake_spin_limit", 500000000L);
  int viol_linger = 0;
  const long relax_limit = vp_param("relax_limit", 4000000000L);
  int q_streak = 0, iq_streak = 0;
  unsigned wd_round = 0;
  for (;;) {
    vp_real_sleep_us(5000);
    if (atomic_load(&g_done) || atomic_load(&g_finishing)) return NULL;
    if (g_periodic) g_periodic();
    if (g_runtime_mode && vp_cfg.mode != VP_MODE_NOHOOK && (++wd_round & 1) == 0) check_blocked_kernel_threads();
    if (g_runtime_mode && vp_cfg.mode != VP_MODE_NOHOOK && (wd_round % 24) == 0) vp_ghost_check_starved();
    if (g_runtime_mode && vp_cfg.mode != VP_MODE_NOHOOK && (wd_round % 24) == 12) vp_ghost_check_overdue_sleepers();
    // once a violation is on record the verdict is decided; give the harness a moment to end normally, then stop
    // (this only bounds how long a wedged process lingers, it never creates or changes a verdict)
    if (vp_violation_count() > 0 && ++viol_linger > 600) vp_finish();
    if (g_runtime_mode && vp_cfg.mode != VP_MODE_NOHOOK) {
      if (vp_ghost_quiescent()) {
        if (++q_streak >= q_need) {
          if (atomic_load(&g_done)) return NULL;
          const long before = vp_violation_count();
          if (g_on_stranded) g_on_stranded();
          if (atomic_load(&g_done)) return NULL;
          if (vp_violation_count() == before) {
            vp_violation("C02", "stranded:unknown",
                         "runtime logically quiescent (all threads idle, no pending wake-up, run queues empty, no "
                         "sleeper) but the harness has not finished");
          }
          vp_ghost_dump(stderr, 40);
          vp_finish();
        }
      } else {
        q_streak = 0;
      }
      if (vp_ghost_idle_but_queued()) {
        if (++iq_streak >= 6 && !atomic_load(&g_done)) {
          vp_violation("C02", "ghost:queued-while-all-idle",
                       "every kernel thread keeps idling (no switch or wake-up anywhere) while %ld wake-up(s) are pending and the run queues hold %ld entr%s: a runnable fiber is never run",
                       vp_ghost_pending_total(), fiber_verif_runqueue_total(), fiber_verif_runqueue_total() == 1 ? "y" : "ies");
          vp_ghost_dump(stderr, 40);
          vp_finish();
        }
      } else {
        iq_streak = 0;
      }
    }
    if (vp_cfg.mode != VP_MODE_NOHOOK) {
      // logical steps without a single completed client operation. Pure spinning (cpu_relax) is judged against a far
      // larger bound: under kernel-thread oversubscription a ticket-lock convoy legitimately spins for a long time.
      const uint64_t p = atomic_load(&vp_progress_ctr);
      // steps = context switches; tight in-place spins (cpu_relax, the wake loop waiting for an announced waiter, CAS2
      // retries) are all "pure spinning"
      const long h = vp_hook_hits(FV_SWITCH_PRE);
      const long rx = vp_hook_hits(FV_CPU_RELAX) + vp_hook_hits(FV_CAS2_PRE);
      const long ws = vp_hook_hits(FV_WAKE_SPIN);  // a waker looking for an announced waiter that is not enqueued yet
      if (p != last_p) {
        last_p = p;
        base_h = h;
        base_rx = rx;
        base_ws = ws;
      } else if (h - base_h > livelock_hits || rx - base_rx > relax_limit || ws - base_ws > wake_spin_limit) {
        vp_violation(vp_param_str("livelock_prop", "C02"), "livelock",
                     "no client operation completed during %ld context switches and %ld in-place spins (totals: spins=%ld switches=%ld wake-spins=%ld)",
                     h - base_h, (rx - base_rx) + (ws - base_ws), rx, vp_hook_hits(FV_SWITCH_PRE), ws);
        if (g_runtime_mode) vp_ghost_dump(stderr, 40);
        vp_finish();
      }
    }
    if ((vp_now_ns() - start) / 1000000000ULL > (uint64_t)vp_cfg.watchdog_s) {
      if (g_runtime_mode && vp_cfg.mode != VP_MODE_NOHOOK) vp_ghost_dump(stderr, 40);
      vp_inconclusive("wall-clock watchdog (%d s) fired; progress=%llu", vp_cfg.watchdog_s,
                      (unsigned long long)atomic_load(&vp_progress_ctr));
    }
  }
  return NULL;
}

void vp_watchdog_start(int runtime_mode, vp_stranded_cb_t on_stranded) {
  g_runtime_mode = runtime_mode;
  g_on_stranded = on_stranded;
  pthread_t t;
  pthread_attr_t attr;
  pthread_attr_init(&attr);
  pthread_attr_setstacksize(&attr, 1 << 20);
  if (pthread_create(&t, &attr, wd_main, NULL)) {
    fprintf(stderr, "cannot start watchdog\n");
    _exit(2);
  }
  pthread_detach(t);
}

long vp_thread_hits(int p) { return (p >= 0 && p < VP_NPOINTS) ? g_thr[vp_tid()].hits[p] : 0; }
