// C15: MPSC / SPSC / relaxed MPSC queues. P producers (1 for SPSC), worker 0 is the single consumer.
#include "ds_common.h"
#include "mpsc_fifo.h"
#include "mpsc_relaxed_fifo.h"
#include "spsc_fifo.h"

enum { K_MPSC, K_SPSC, K_MPSCR };
static int kind;
static mpsc_fifo_t q_mpsc;
static spsc_fifo_t q_spsc;
static mpscr_fifo_t* q_mpscr;
static int producers;
static long quota;
static _Atomic long producers_done;
static int cur_round;

// recycle pool: nodes handed back by the consumer are reused by producers (not under ASan, where they are freed)
static pthread_spinlock_t pool_lock;
static void* pool[1 << 15];
static int pool_n;
static vp_counter_t *c_push, *c_pop, *c_empty, *c_recycled, *c_rounds;

static void* node_get(size_t sz) {
  void* n = NULL;
#ifndef VP_ASAN
  pthread_spin_lock(&pool_lock);
  if (pool_n > 0) n = pool[--pool_n];
  pthread_spin_unlock(&pool_lock);
  if (n) vp_add(c_recycled, 1);
#endif
  if (!n) n = malloc(sz < 32 ? 32 : sz);
  return n;
}
static void node_put(void* n) {
#ifdef VP_ASAN
  free(n);
#else
  memset(n, 0xDD, 16);
  pthread_spin_lock(&pool_lock);
  if (pool_n < (int)(sizeof(pool) / sizeof(pool[0]))) {
    pool[pool_n++] = n;
    n = NULL;
  }
  pthread_spin_unlock(&pool_lock);
  if (n) free(n);
#endif
}

static void producer(ds_worker_t* w) {
  uint64_t seq = 0;
  const int lane = w->id - 1;
  ds_start_line();
  while ((long)seq < quota) {
    const uint64_t val = ((uint64_t)(w->id) << 40) | ++seq;
    vp_op_t* o;
    if (kind == K_MPSC) {
      mpsc_fifo_node_t* n = node_get(sizeof(*n));
      n->data = (void*)(uintptr_t)val;
      o = vp_log_begin(&w->log, w->id, VP_OP_PUSH, val);
      mpsc_fifo_push(&q_mpsc, n);
    } else {
      spsc_node_t* n = node_get(sizeof(*n));
      n->data = (void*)(uintptr_t)val;
      o = vp_log_begin(&w->log, w->id, VP_OP_PUSH, val);
      if (kind == K_SPSC) spsc_fifo_push(&q_spsc, n);
      else mpscr_fifo_push(q_mpscr, (size_t)lane, n);
    }
    vp_log_end(o, VP_RES_OK, val);
    vp_add(c_push, 1);
    if ((vp_rand(&w->rng) & 7) == 0) ds_tiny_delay(&w->rng, 400);
  }
  atomic_fetch_add(&producers_done, 1);
}

static void* try_pop(uint64_t* val) {
  if (kind == K_MPSC) {
    mpsc_fifo_node_t* n = mpsc_fifo_trypop(&q_mpsc);
    if (n) *val = (uint64_t)(uintptr_t)n->data;
    return n;
  }
  spsc_node_t* n = kind == K_SPSC ? spsc_fifo_trypop(&q_spsc) : mpscr_fifo_trypop(q_mpscr);
  if (n) *val = (uint64_t)(uintptr_t)n->data;
  return n;
}

static void consumer(ds_worker_t* w) {
  const long total = quota * producers;
  long got = 0, idle = 0;
  int ce = 0;
  uint64_t last_seq[DS_MAX_WORKERS + 1];
  memset(last_seq, 0, sizeof(last_seq));
  ds_start_line();
  while (got < total) {
    uint64_t val = 0;
    vp_op_t* o = vp_log_begin(&w->log, w->id, VP_OP_POP, 0);
    void* n = try_pop(&val);
    if (n) {
      vp_log_end(o, VP_RES_OK, val);
      ++got;
      ce = 0;
      idle = 0;
      vp_add(c_pop, 1);
      // per-producer order in the consumer's program order
      const unsigned p = (unsigned)(val >> 40);
      const uint64_t s = val & 0xffffffffffULL;
      if (p >= 1 && p <= (unsigned)producers) {
        if (s <= last_seq[p])
          vp_violation("C15", "hist:producer-order", "%s round %d: item %llu of producer %u returned after item %llu of the same producer",
                       kind == K_MPSC ? "mpsc" : (kind == K_SPSC ? "spsc" : "mpscr"), cur_round, (unsigned long long)s, p,
                       (unsigned long long)last_seq[p]);
        last_seq[p] = s;
      }
      node_put(n);
    } else {
      vp_log_end(o, VP_RES_EMPTY, 0);
      vp_add(c_empty, 1);
      if (++ce > 2) w->log.n--;
      if (atomic_load(&producers_done) == producers && ++idle > 3000) break;  // lost item: reported by the checker
    }
    if ((vp_rand(&w->rng) & 15) == 0) ds_tiny_delay(&w->rng, 300);
  }
}

static void round_fn(ds_worker_t* w) {
  if (w->id == 0) consumer(w);
  else producer(w);
}

static void run_kind(int k) {
  kind = k;
  const long rounds = vp_param("rounds", 100);
  const long ops = vp_param("ops", 4000);
  c_push = vp_counter("q_push");
  c_pop = vp_counter("q_pop_ok");
  c_empty = vp_counter("q_pop_empty");
  c_recycled = vp_counter("q_nodes_recycled");
  c_rounds = vp_counter("q_rounds");
  pthread_spin_init(&pool_lock, 0);
  uint64_t rng = vp_mix(vp_cfg.seed, 1515 + k);
  const char* name = k == K_MPSC ? "mpsc_fifo" : (k == K_SPSC ? "spsc_fifo" : "mpscr_fifo");
  for (cur_round = 0; cur_round < rounds; ++cur_round) {
    producers = k == K_SPSC ? 1 : 1 + (int)(vp_rand(&rng) % (unsigned)(ds_nworkers > 1 ? ds_nworkers - 1 : 1));
    if (producers > ds_nworkers - 1) producers = ds_nworkers - 1;
    if (producers < 1) return;
    quota = ops / producers;
    if (quota < 1) quota = 1;
    atomic_store(&producers_done, 0);
    if (k == K_MPSC) mpsc_fifo_init(&q_mpsc);
    else if (k == K_SPSC) spsc_fifo_init(&q_spsc);
    else {
      q_mpscr = mpscr_fifo_create((size_t)producers);
      if (vp_rand(&rng) & 1) {
        // start the round-robin cursor just below 2^32: crossing it must be a non-event for a size_t counter
        q_mpscr->counter = (size_t)0x100000000ULL - (size_t)(vp_rand(&rng) % 64) - 1;
        vp_count("mpscr_rounds_crossing_2pow32", 1);
      }
    }
    int i;
    for (i = 0; i <= producers; ++i) vp_log_reset(&ds_w[i].log);
    ds_run_round(producers + 1, round_fn);
    // final drain by the main thread (consumer role), logged in the consumer's log
    for (;;) {
      uint64_t val = 0;
      vp_op_t* o = vp_log_begin(&ds_w[0].log, 0, VP_OP_POP, 0);
      void* n = try_pop(&val);
      if (!n) {
        vp_log_end(o, VP_RES_EMPTY, 0);
        break;
      }
      vp_log_end(o, VP_RES_OK, val);
      node_put(n);
    }
    vp_hist_t h;
    ds_history_begin(&h, producers + 1);
    vp_report_t rep = {"C15", name};
    char ctx[96];
    snprintf(ctx, sizeof(ctx), "round %d (%d producers)", cur_round, producers);
    vp_val_t* vals;
    size_t nv = vp_vals_build(&h, &vals, &rep, ctx);
    vp_check_no_loss(vals, nv, &rep, ctx);
    if (k != K_MPSCR) vp_check_fifo(vals, nv, &rep, ctx, 1);  // strict queues: real-time order of completed pushes
    vp_check_empty(&h, vals, nv, &rep, ctx);
    free(vals);
    ds_history_end(&h, ctx);
    if (k == K_MPSC) mpsc_fifo_destroy(&q_mpsc);
    else if (k == K_SPSC) spsc_fifo_destroy(&q_spsc);
    else mpscr_fifo_destroy(q_mpscr);
    vp_add(c_rounds, 1);
    if (vp_violation_count()) break;
  }
}

void ds_sub_mpsc(void) { run_kind(K_MPSC); }
void ds_sub_spsc(void) { run_kind(K_SPSC); }
void ds_sub_mpscr(void) { run_kind(K_MPSCR); }
