// C11 channels + raw signal, C20 multi-signal. Unique message ids, per-sender order, capacity lower bound,
// payload integrity (plain memory, judged by TSan), stranded peers via logical quiescence.
#include "fb_common.h"
#include "fiber_channel.h"
#undef _FIBER_CHANNEL_H_  // both channel headers use the same include guard
#include "fiber_multi_channel.h"

typedef struct msg {
  mpsc_fifo_node_t node;  // for the unbounded channels (must be first; spsc_node_t has the same layout)
  uint64_t id;            // sender << 40 | seq
  uint64_t payload[4];
  uint64_t sum;
} msg_t;

static int trial, kind;
static int nsend, nrecv, cap_log;
static long per_sender;
static _Atomic long sent_returned, recv_invoked, recv_total;
static fiber_signal_t sig;
static fiber_bounded_channel_t* bch;
static fiber_unbounded_channel_t uch;
static fiber_unbounded_sp_channel_t spch;
static fiber_multi_channel_t* mch;
static int use_signal;
static vp_counter_t *c_msgs, *c_trials, *c_recv_slept, *c_full_seen, *c_payload_checked;
static const char* const kind_names[] = {"bounded", "unbounded", "sp", "multi", "signal", "msignal"};

__attribute__((noinline)) static void vp_payload_fill(msg_t* m, uint64_t id) {
  m->id = id;
  m->payload[0] = id * 3;
  m->payload[1] = id ^ 0x5555;
  m->payload[2] = ~id;
  m->payload[3] = id + 17;
  m->sum = m->payload[0] + m->payload[1] + m->payload[2] + m->payload[3];
}
__attribute__((noinline)) static uint64_t vp_payload_check(msg_t* m, int who) {
  const uint64_t s = m->payload[0] + m->payload[1] + m->payload[2] + m->payload[3];
  if (s != m->sum || m->payload[0] != m->id * 3)
    vp_violation("C11", "chan:payload-corrupt", "trial %d (%s): receiver %d got message %llx with a torn payload", trial, kind_names[kind], who,
                 (unsigned long long)m->id);
  vp_add(c_payload_checked, 1);
  return m->id;
}

static void note_sent(void) {
  const long s = atomic_fetch_add(&sent_returned, 1) + 1;
  if (kind == 0 || kind == 3) {
    const long cap = 1L << cap_log;
    const long r = atomic_load(&recv_invoked);
    if (s - r > cap)
      vp_violation("C11", "chan:over-capacity", "trial %d (%s): %ld sends have returned but only %ld receives were invoked: at least %ld messages inside a channel of capacity %ld",
                   trial, kind_names[kind], s, r, s - r, cap);
    if (s - r == cap) vp_add(c_full_seen, 1);
  }
}

static void* sender_fn(void* a) {
  fb_slot_t* s = (fb_slot_t*)a;
  const int me = (int)s->c;
  long i;
  for (i = 1; i <= per_sender; ++i) {
    msg_t* m = (msg_t*)malloc(sizeof(*m));
    vp_payload_fill(m, ((uint64_t)(me + 1) << 40) | (uint64_t)i);
    switch (kind) {
      case 0:
        FB_BLOCKING(s, "C11 fiber_bounded_channel_send", fiber_bounded_channel_send(bch, m));
        break;
      case 1:
        m->node.data = m;
        fiber_unbounded_channel_send(&uch, &m->node);
        break;
      case 2:
        m->node.data = m;
        fiber_unbounded_sp_channel_send(&spch, (fiber_unbounded_sp_channel_message_t*)&m->node);
        break;
      default:
        FB_BLOCKING(s, "C11 fiber_multi_channel_send", fiber_multi_channel_send(mch, m));
        break;
    }
    note_sent();
    vp_add(c_msgs, 1);
    const unsigned d = (unsigned)(vp_rand(&s->rng) % 8);
    if (d == 0) fiber_yield();
    else if (d == 1) fb_spin(&s->rng, 400);
  }
  return NULL;
}

static void* receiver_fn(void* a) {
  fb_slot_t* s = (fb_slot_t*)a;
  const int me = (int)s->c;
  uint64_t last[64];
  memset(last, 0, sizeof(last));
  const long total = per_sender * nsend;
  if ((vp_rand(&s->rng) & 3) == 0) fb_interrupted_read(s);
  for (;;) {
    // multi channel: receivers share the work; stop when everything has been claimed
    const long claimed = atomic_fetch_add(&recv_invoked, 1) + 1;
    if (claimed > total) break;
    msg_t* m = NULL;
    const uint64_t sw = vp_self_switches();
    switch (kind) {
      case 0:
        FB_BLOCKING(s, "C11 fiber_bounded_channel_receive", m = (msg_t*)fiber_bounded_channel_receive(bch));
        break;
      case 1: {
        void* n = NULL;
        FB_BLOCKING(s, "C11 fiber_unbounded_channel_receive", n = fiber_unbounded_channel_receive(&uch));
        m = (msg_t*)((mpsc_fifo_node_t*)n)->data;
        // the node handed back is the previous dummy: it is the memory of an earlier message (or the initial dummy)
        break;
      }
      case 2: {
        void* n = NULL;
        FB_BLOCKING(s, "C11 fiber_unbounded_sp_channel_receive", n = fiber_unbounded_sp_channel_receive(&spch));
        m = (msg_t*)((spsc_node_t*)n)->data;
        break;
      }
      default:
        FB_BLOCKING(s, "C11 fiber_multi_channel_receive", m = (msg_t*)fiber_multi_channel_receive(mch));
        break;
    }
    if (vp_self_switches() != sw) vp_add(c_recv_slept, 1);
    if (!m) {
      vp_violation("C11", "chan:null-message", "trial %d (%s): receive returned NULL", trial, kind_names[kind]);
      break;
    }
    const uint64_t id = vp_payload_check(m, me);
    const unsigned snd = (unsigned)(id >> 40);
    const uint64_t seq = id & 0xffffffffffULL;
    if (snd < 1 || snd > (unsigned)nsend || seq < 1 || seq > (uint64_t)per_sender) {
      vp_violation("C11", "chan:phantom", "trial %d (%s): receiver %d got message %llx that nobody sent", trial, kind_names[kind], me, (unsigned long long)id);
    } else {
      if (seq <= last[snd])
        vp_violation("C11", nrecv == 1 && seq == last[snd] ? "chan:duplicate" : "chan:sender-order",
                     "trial %d (%s): receiver %d got message %llu of sender %u after message %llu of the same sender", trial, kind_names[kind], me,
                     (unsigned long long)seq, snd, (unsigned long long)last[snd]);
      else if (nrecv == 1 && seq != last[snd] + 1)
        vp_violation("C11", "chan:lost", "trial %d (%s): the only receiver got message %llu of sender %u right after %llu: %llu message(s) lost or overwritten",
                     trial, kind_names[kind], (unsigned long long)seq, snd, (unsigned long long)last[snd], (unsigned long long)(seq - last[snd] - 1));
      last[snd] = seq;
    }
    atomic_fetch_add(&recv_total, 1);
    if ((vp_rand(&s->rng) & 7) == 0) fiber_yield();
    // messages are not freed: the unbounded channels hand their memory back later as queue nodes
  }
  return NULL;
}

// ---------------------------------------------------------------------------------------------------------
// raw fiber_signal: one waiter, several raisers; ping-pong over two signals so that a lost raise leaves
// everybody blocked (logical quiescence) instead of spinning
static fiber_signal_t ping, pong;
static _Atomic long raises_begun, waits_returned, pings_needed;
static _Atomic int raiser_turn;
static int nraisers;
static long rounds;

static void* sig_waiter(void* a) {
  fb_slot_t* s = (fb_slot_t*)a;
  long i;
  if ((vp_rand(&s->rng) & 1) == 0) fb_interrupted_read(s);
  for (i = 0; i < rounds; ++i) {
    FB_BLOCKING(s, "C11 fiber_signal_wait", fiber_signal_wait(&ping));
    const long w = atomic_fetch_add(&waits_returned, 1) + 1;
    const long r = atomic_load(&raises_begun);
    if (w > r)
      vp_violation("C11", "signal:wait-without-raise", "trial %d: wait #%ld returned although only %ld raises have begun", trial, w, r);
    fiber_signal_raise(&pong);
  }
  return NULL;
}
static void* sig_raiser(void* a) {
  fb_slot_t* s = (fb_slot_t*)a;
  long i;
  for (i = 0; i < rounds; ++i) {
    if ((vp_rand(&s->rng) & 3) == 0) fiber_yield();
    atomic_fetch_add(&raises_begun, 1);
    fiber_signal_raise(&ping);
    FB_BLOCKING(s, "C11 fiber_signal_wait(ack)", fiber_signal_wait(&pong));
  }
  return NULL;
}

// ---------------------------------------------------------------------------------------------------------
// C20 multi-signal
static fiber_multi_signal_t ms __attribute__((aligned(16)));
static _Atomic long ms_raises_begun, ms_raise_ret1, ms_waits_returned, ms_waits_slept, ms_acks;
static long ms_target;
static int ms_mode;  // 0 ping-pong exact, 1 storm
static _Atomic int ms_stop;
static fiber_signal_t ms_ack;  // exact mode: each returned wait raises it, the single raiser waits for it (blocking, so a
                               // dropped waiter leaves everybody blocked = logical quiescence)

static void* ms_waiter(void* a) {
  fb_slot_t* s = (fb_slot_t*)a;
  const long quota = s->c;
  long i;
  if ((vp_rand(&s->rng) & 3) == 0) fb_interrupted_read(s);
  for (i = 0; i < quota; ++i) {
    const uint64_t sw = vp_self_switches();
    FB_BLOCKING(s, "C20 fiber_multi_signal_wait", fiber_multi_signal_wait(&ms));
    if (vp_self_switches() != sw) atomic_fetch_add(&ms_waits_slept, 1);
    const long w = atomic_fetch_add(&ms_waits_returned, 1) + 1;
    const long r = atomic_load(&ms_raises_begun);
    if (w > r)
      vp_violation("C20", "msignal:released-without-raise", "trial %d: %ld waits have returned but only %ld raises have begun (one raise released two waiters, or a waiter left without a raise)",
                   trial, w, r);
    atomic_fetch_add(&ms_acks, 1);
    if (!ms_mode) fiber_signal_raise(&ms_ack);
    if ((vp_rand(&s->rng) & 3) == 0) fiber_yield();
  }
  return NULL;
}
static void* ms_raiser_pingpong(void* a) {
  fb_slot_t* s = (fb_slot_t*)a;
  long i;
  for (i = 1; i <= ms_target; ++i) {
    atomic_fetch_add(&ms_raises_begun, 1);
    if (fiber_multi_signal_raise(&ms)) atomic_fetch_add(&ms_raise_ret1, 1);
    // exactly one wait must return for this raise (either woken now, or the next wait finds it raised)
    // exactly one wait must return for this raise (either woken now, or the next wait finds it raised)
    while (atomic_load(&ms_acks) < i) FB_BLOCKING(s, "C20 wait for the waiter released by a multi-signal raise", fiber_signal_wait(&ms_ack));
  }
  return NULL;
}
static void* ms_raiser_storm(void* a) {
  fb_slot_t* s = (fb_slot_t*)a;
  while (atomic_load(&ms_waits_returned) < ms_target) {
    atomic_fetch_add(&ms_raises_begun, 1);
    if (fiber_multi_signal_raise(&ms)) atomic_fetch_add(&ms_raise_ret1, 1);
    if (vp_rand(&s->rng) & 1) fiber_yield();
    else fb_spin(&s->rng, 200);
  }
  return NULL;
}

// ---------------------------------------------------------------------------------------------------------
// bounded channel, acknowledged ping-pong (sub=ack): one sender, one receiver on two kernel threads, raw speed. The sender sends
// message k and waits (yielding) until the receiver has acknowledged it, so receiver and sender meet at the channel within
// nanoseconds of each other, again and again: the receiver decides to sleep just when the next message is being stored.
// Stuck-state rule (no hooks needed, so it also works in raw mode): the sender has returned from send(k) and is waiting for the
// acknowledgement, the message is still inside, and the receiver is registered in the ready signal and suspended - on three looks.
// Nobody will ever raise the signal again: the receiver is stranded with a message in the channel.
static _Atomic long ack_sent, ack_acked;
static long ack_total;
static fb_slot_t* ack_recv_slot;
static void* ack_sender(void* a) {
  fb_slot_t* s = (fb_slot_t*)a;
  long k;
  msg_t* m = (msg_t*)malloc(sizeof(*m));
  vp_payload_fill(m, ((uint64_t)1 << 40) | 1u);
  for (k = 1; k <= ack_total; ++k) {
    FB_BLOCKING(s, "C11 fiber_bounded_channel_send", fiber_bounded_channel_send(bch, m));
    atomic_store(&ack_sent, k);
    vp_add(c_msgs, 1);
    // the next message is prepared while waiting, so that the next send follows the acknowledgement at once
    m = (msg_t*)malloc(sizeof(*m));
    vp_payload_fill(m, ((uint64_t)1 << 40) | (uint64_t)(k + 1));
    atomic_store(&s->where, "C11 sender waiting for the receiver's acknowledgement");
    unsigned spins = 0;
    while (atomic_load(&ack_acked) < k) {
      // mostly busy-waiting (the two fibers stay on their kernel threads and meet at raw speed), yielding now and then so that a
      // receiver that was queued behind this fiber gets to run
      __asm__ __volatile__("pause" ::: "memory");
      if ((++spins & 0xfff) == 0) {
        if (vp_violation_count()) return NULL;
        fiber_yield();
      }
    }
    atomic_store(&s->where, (const char*)0);
  }
  free(m);
  return NULL;
}
static void* ack_receiver(void* a) {
  fb_slot_t* s = (fb_slot_t*)a;
  long k;
  for (k = 1; k <= ack_total; ++k) {
    fb_spin(&s->rng, 120);  // arrive at the channel at a random moment relative to the next send
    msg_t* m = NULL;
    const uint64_t sw = vp_self_switches();
    FB_BLOCKING(s, "C11 fiber_bounded_channel_receive", m = (msg_t*)fiber_bounded_channel_receive(bch));
    if (vp_self_switches() != sw) vp_add(c_recv_slept, 1);
    if (!m) {
      vp_violation("C11", "chan:null-message", "ack ping-pong: receive #%ld returned NULL", k);
      return NULL;
    }
    const uint64_t id = vp_payload_check(m, 0);
    if ((id & 0xffffffffffULL) != (uint64_t)k) vp_violation("C11", "chan:sender-order", "ack ping-pong: receive #%ld delivered message %llu", k, (unsigned long long)(id & 0xffffffffffULL));
    free(m);
    atomic_store(&ack_acked, k);
  }
  return NULL;
}
static void ack_periodic(void) {
  static long last_k;
  static int streak;
  fb_slot_t* r = ack_recv_slot;
  if (!r || !r->fiber || !bch) return;
  const long sent = atomic_load(&ack_sent), acked = atomic_load(&ack_acked);
  fiber_t* const w = atomic_load(&sig.waiter);
  const int stuck = sent == acked + 1 && bch->high != bch->low && w == r->fiber && r->fiber->state == FIBER_STATE_WAITING;
  if (stuck && last_k == sent) {
    if (++streak >= 3) {
      vp_violation("C11", "chan:receiver-asleep-with-message-inside",
                   "ack ping-pong: send #%ld has returned (the sender only waits for the acknowledgement now), the message is in the channel (high=%llu low=%llu), and the receiver is registered "
                   "in the ready signal and suspended: nobody will raise the signal again",
                   sent, (unsigned long long)bch->high, (unsigned long long)bch->low);
      streak = 0;
      vp_finish();
    }
  } else {
    streak = stuck ? 1 : 0;
    last_k = sent;
  }
}

static void chan_diag(void) {
  if (kind == 3 && mch) {
    vp_note("multi channel at stranding: high=%llu low=%llu size=%u (inside %llu), lock counter=%d", (unsigned long long)mch->high, (unsigned long long)mch->low, mch->size,
            (unsigned long long)(mch->high - mch->low), atomic_load(&mch->lock.counter));
  }
}

static void* root(void* x) {
  (void)x;
  fb_stranded_diag = chan_diag;
  const int trials = (int)vp_param("trials", 20);
  const char* sub = vp_cfg.sub;
  c_msgs = vp_counter("chan_messages_sent");
  c_trials = vp_counter("chan_trials");
  c_recv_slept = vp_counter("chan_receives_that_slept");
  c_full_seen = vp_counter("chan_sends_that_filled_the_buffer");
  c_payload_checked = vp_counter("chan_payloads_checked");
  uint64_t rng = vp_mix(vp_cfg.seed, 1111);
  static fb_slot_t* sl[256];
  for (trial = 0; trial < trials; ++trial) {
    int n = 0, i;
    fb_slots_reset();
    if (!strcmp(sub, "ack")) {
      kind = 0;
      cap_log = 1 + (int)(vp_rand(&rng) % 3);
      ack_total = vp_param("ack_msgs", 300000);
      atomic_store(&ack_sent, 0);
      atomic_store(&ack_acked, 0);
      fiber_signal_init(&sig);
      bch = fiber_bounded_channel_create((uint32_t)cap_log, &sig);
      sl[n++] = ack_recv_slot = fb_spawn(ack_receiver, NULL);
      sl[n++] = fb_spawn(ack_sender, NULL);
      vp_set_periodic(ack_periodic);
      fb_join_all(sl, n);
      vp_set_periodic(NULL);
      ack_recv_slot = NULL;
      if (atomic_load(&ack_acked) != ack_total && !vp_violation_count())
        vp_violation("C11", "chan:lost", "ack ping-pong: %ld of %ld messages acknowledged", atomic_load(&ack_acked), ack_total);
      vp_sig(vp_mix((uint64_t)cap_log, (uint64_t)vp_get(c_recv_slept)));
      vp_count("chan_ack_pingpong_trials", 1);
    } else if (!strcmp(sub, "signal")) {
      kind = 4;
      rounds = 200 + (long)(vp_rand(&rng) % 800);
      fiber_signal_init(&ping);
      fiber_signal_init(&pong);
      atomic_store(&raises_begun, 0);
      atomic_store(&waits_returned, 0);
      sl[n++] = fb_spawn(sig_waiter, NULL);
      sl[n++] = fb_spawn(sig_raiser, NULL);
      fb_join_all(sl, n);
      vp_sig(vp_mix((uint64_t)rounds, (uint64_t)vp_cfg.threads * 31 + (uint64_t)trial));
    } else if (!strcmp(sub, "msignal")) {
      kind = 5;
      ms_mode = (int)(vp_rand(&rng) & 1);
      const int W = 1 + (int)(vp_rand(&rng) % 12), R = ms_mode ? 1 + (int)(vp_rand(&rng) % 6) : 1;
      const long q = 20 + (long)(vp_rand(&rng) % 150);
      ms_target = q * W;
      fiber_multi_signal_init(&ms);
      if (vp_rand(&rng) & 1) ms.data.counter = (uintptr_t)0x100000000ULL - 40;  // version counter crosses 2^32
      fiber_signal_init(&ms_ack);
      atomic_store(&ms_raises_begun, 0);
      atomic_store(&ms_raise_ret1, 0);
      atomic_store(&ms_waits_returned, 0);
      atomic_store(&ms_waits_slept, 0);
      atomic_store(&ms_acks, 0);
      for (i = 0; i < W; ++i) sl[n++] = fb_spawn(ms_waiter, (void*)(intptr_t)q);
      for (i = 0; i < R; ++i) sl[n++] = fb_spawn(ms_mode ? ms_raiser_storm : ms_raiser_pingpong, NULL);
      fb_join_all(sl, n);
      const long ret1 = atomic_load(&ms_raise_ret1), slept = atomic_load(&ms_waits_slept), ret = atomic_load(&ms_waits_returned);
      if (ret != ms_target) vp_violation("C20", "msignal:count", "trial %d: %ld waits returned, expected %ld", trial, ret, ms_target);
      if (ret1 != slept)
        vp_violation("C20", "msignal:wake-accounting", "trial %d: %ld raises reported that they woke a waiter but %ld waits actually slept and were resumed", trial, ret1, slept);
      if (!ms_mode && atomic_load(&ms_raises_begun) != ret)
        vp_violation("C20", "msignal:pingpong-count", "trial %d: %ld raises for %ld returned waits in exact mode", trial, atomic_load(&ms_raises_begun), ret);
      vp_count("msignal_raises_that_woke", ret1);
      vp_count("msignal_raises_remembered_or_coalesced", atomic_load(&ms_raises_begun) - ret1);
      vp_count("msignal_waits", ret);
      vp_sig(vp_mix(((uint64_t)W << 8) | (uint64_t)R | ((uint64_t)ms_mode << 20), (uint64_t)slept * 131 + (uint64_t)ret1));
      if (trial < 2) vp_sample("multi-signal trial %d: %s mode, %d waiters x %ld waits, %d raisers: %ld raises woke a sleeping waiter, %ld were remembered/coalesced", trial,
                               ms_mode ? "storm" : "exact ping-pong", W, q, R, ret1, atomic_load(&ms_raises_begun) - ret1);
    } else {
      kind = !strcmp(sub, "bounded") ? 0 : !strcmp(sub, "unbounded") ? 1 : !strcmp(sub, "sp") ? 2 : 3;
      // multi channel, two trials in three: a burst of short lives (capacity 2, many senders with 1..3 messages each, a few receivers).
      // Senders that finish early leave the others depending on exactly the wake-up their peer's operation owes them; a wake-up given
      // to the wrong kind of waiter shows as a stranded sender on an empty channel.
      const int burst = (kind == 3 && vp_rand(&rng) % 3) ? (int)vp_param("mini", 40) : 1;
      int h;
      for (h = 0; h < burst && !vp_violation_count(); ++h) {
      if (h) {
        fb_slots_reset();
        n = 0;
        vp_add(c_trials, 1);
        vp_case();
      }
      cap_log = 1 + (int)(vp_rand(&rng) % 4);
      nsend = kind == 2 ? 1 : 1 + (int)(vp_rand(&rng) % 16);
      nrecv = kind == 3 ? 1 + (int)(vp_rand(&rng) % 6) : 1;
      per_sender = 50 + (long)(vp_rand(&rng) % (unsigned)vp_param("msgs", 400));
      if (burst > 1) {
        cap_log = 1;
        nsend = 3 + (int)(vp_rand(&rng) % 30);
        nrecv = 2 + (int)(vp_rand(&rng) % 7);
        per_sender = 1 + (long)(vp_rand(&rng) % 3);
      }
      use_signal = (kind == 3) ? 0 : (kind == 0 ? (int)(vp_rand(&rng) % 4 != 0) : 1);  // a NULL signal makes the unbounded receivers spin without yielding (documented)
      atomic_store(&sent_returned, 0);
      atomic_store(&recv_invoked, 0);
      atomic_store(&recv_total, 0);
      fiber_signal_init(&sig);
      if (kind == 0) {
        bch = fiber_bounded_channel_create((uint32_t)cap_log, use_signal ? &sig : NULL);
        if (vp_rand(&rng) & 1) {
          const uint64_t start = 0x100000000ULL - ((uint64_t)(8 + vp_rand(&rng) % 16) << cap_log);
          bch->high = start;
          bch->low = start;
        }
      }
      else if (kind == 1) fiber_unbounded_channel_init(&uch, use_signal ? &sig : NULL);
      else if (kind == 2) fiber_unbounded_sp_channel_init(&spch, use_signal ? &sig : NULL);
      else mch = fiber_multi_channel_create((uint32_t)cap_log);
      fiber_manager_stats_t st0, st1;
      fiber_manager_all_stats(&st0);
      for (i = 0; i < nrecv; ++i) sl[n++] = fb_spawn(receiver_fn, (void*)(intptr_t)i);
      for (i = 0; i < nsend; ++i) sl[n++] = fb_spawn(sender_fn, (void*)(intptr_t)i);
      fb_join_all(sl, n);
      fiber_manager_all_stats(&st1);
      if (atomic_load(&recv_total) != per_sender * nsend)
        vp_violation("C11", "chan:lost", "trial %d (%s): %ld messages sent, %ld received", trial, kind_names[kind], per_sender * nsend, atomic_load(&recv_total));
      vp_count("lib_signal_spin_count", (long)(st1.signal_spin_count - st0.signal_spin_count));
      vp_sig(vp_mix(((uint64_t)kind << 24) | ((uint64_t)nsend << 16) | ((uint64_t)nrecv << 8) | (uint64_t)cap_log | ((uint64_t)use_signal << 30),
                    (uint64_t)vp_get(c_recv_slept) * 131 + (uint64_t)vp_get(c_full_seen)));
      if (trial < 2 && h < 2) vp_sample("%s channel trial %d: %d senders x %ld messages, %d receiver(s), capacity %d, %s, %d kernel threads", kind_names[kind], trial, nsend, per_sender, nrecv,
                               kind == 0 || kind == 3 ? 1 << cap_log : 0, use_signal ? "receiver sleeps on a signal" : "no signal (spinning/yielding)", vp_cfg.threads);
      }
      // channels are intentionally not destroyed: message memory is still linked as queue nodes
    }
    vp_add(c_trials, 1);
    vp_case();
    if (vp_violation_count()) break;
  }
  return NULL;
}

int main(int argc, char** argv) { return fb_main(argc, argv, root); }
