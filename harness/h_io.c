// C08: shimmed descriptor I/O. Self-checking byte streams and datagrams between fibers, absolute rules on what a
// blocking / non-blocking call may return, and an in-process differential against the real libc entry points
// (dlsym(RTLD_NEXT)) for invalid descriptors.
#include <arpa/inet.h>
#include <dlfcn.h>
#include <errno.h>
#include <fcntl.h>
#include <netinet/in.h>
#include <sys/ioctl.h>
#include <sys/resource.h>
#include <sys/socket.h>
#include <sys/uio.h>

#include "fb_common.h"
#include <signal.h>
#include "fiber_event.h"

static int trial, scen;
static _Atomic long ticker_count;
static _Atomic int stop_ticker;
static vp_counter_t *c_trials, *c_bytes, *c_calls[12], *c_short, *c_blocked_calls, *c_nb_calls, *c_restore_fcntl, *c_hup, *c_invalid_calls, *c_close_wakes, *c_accepts, *c_dgrams, *c_scen[16];
static const char* const call_names[12] = {"io_read", "io_recv", "io_readv", "io_recvfrom", "io_recvmsg", "io_write", "io_send", "io_writev", "io_sendto", "io_sendmsg", "io_accept", "io_connect"};

// errno is thread-local and a fiber may come back from a blocking call on another kernel thread, while the compiler
// may keep the address of errno (__errno_location is 'const') across that call: always go through these helpers
__attribute__((noinline)) static int vp_errno(void) { return errno; }
__attribute__((noinline)) static void vp_errno_clear(void) { errno = 0; }

static inline unsigned char stream_byte(uint64_t conn, uint64_t off) { return (unsigned char)((off * 131 + conn * 17 + (off >> 8) * 7) & 0xff); }

typedef struct conn {
  int rfd, wfd;
  uint64_t id;
  size_t total;
  int close_after;
  _Atomic int writer_done;
} conn_t;

static void eagain_check(const char* call, int blocking, ssize_t r, int err) {
  if (blocking && r < 0 && (err == EAGAIN || err == EWOULDBLOCK))
    vp_violation("C08", "io:eagain-in-blocking-mode", "trial %d scenario %d: %s on a descriptor in blocking mode failed with EAGAIN/EWOULDBLOCK", trial, scen, call);
}

#define IO_GIVE_UP() do { if (vp_violation_count()) vp_finish(); } while (0)

static void* stream_writer(void* a) {
  fb_slot_t* s = (fb_slot_t*)a;
  conn_t* c = (conn_t*)(intptr_t)s->c;
  unsigned char buf[70000];
  size_t off = 0;
  while (off < c->total) {
    size_t n = 1 + (size_t)(vp_rand(&s->rng) % (vp_rand(&s->rng) % 8 == 0 ? sizeof(buf) : 3000));
    if (n > c->total - off) n = c->total - off;
    size_t i;
    for (i = 0; i < n; ++i) buf[i] = stream_byte(c->id, off + i);
    ssize_t r = -1;
    const int how = (int)(vp_rand(&s->rng) % 5);
    const uint64_t sw = vp_self_switches();
    vp_errno_clear();
    switch (how) {
      case 0:
        FB_BLOCKING(s, "C08 write", r = write(c->wfd, buf, n));
        break;
      case 1:
        FB_BLOCKING(s, "C08 send", r = send(c->wfd, buf, n, MSG_NOSIGNAL));
        break;
      case 2: {
        struct iovec iv[2] = {{buf, n / 2}, {buf + n / 2, n - n / 2}};
        FB_BLOCKING(s, "C08 writev", r = writev(c->wfd, iv, 2));
        break;
      }
      case 3:
        FB_BLOCKING(s, "C08 sendto", r = sendto(c->wfd, buf, n, MSG_NOSIGNAL, NULL, 0));
        break;
      default: {
        struct iovec iv = {buf, n};
        struct msghdr mh;
        memset(&mh, 0, sizeof(mh));
        mh.msg_iov = &iv;
        mh.msg_iovlen = 1;
        FB_BLOCKING(s, "C08 sendmsg", r = sendmsg(c->wfd, &mh, MSG_NOSIGNAL));
        break;
      }
    }
    const int err = vp_errno();
    vp_add(c_calls[5 + how], 1);
    if (vp_self_switches() != sw) vp_add(c_blocked_calls, 1);
    if (r < 0 && err == ENOTSOCK && how != 0 && how != 2) {  // pipes: only write/writev apply
      r = write(c->wfd, buf, n);
    }
    eagain_check(call_names[5 + how], 1, r, err);
    if (r <= 0) {
      vp_violation("C08", "io:write-failed", "trial %d scenario %d: %s of %zu bytes returned %zd (errno %d) on a healthy connection", trial, scen, call_names[5 + how], n, r, err);
      break;
    }
    if ((size_t)r > n) {
      vp_violation("C08", "io:write-overcount", "trial %d: %s of %zu bytes returned %zd", trial, call_names[5 + how], n, r);
      break;
    }
    if ((size_t)r < n) vp_add(c_short, 1);
    off += (size_t)r;
    vp_add(c_bytes, r);
  }
  IO_GIVE_UP();
  atomic_store(&c->writer_done, 1);
  if (c->close_after) close(c->wfd);
  return NULL;
}

static void* stream_reader(void* a) {
  fb_slot_t* s = (fb_slot_t*)a;
  conn_t* c = (conn_t*)(intptr_t)s->c;
  unsigned char buf[70000];
  size_t off = 0;
  for (;;) {
    if (!c->close_after && off == c->total) break;
    size_t n = 1 + (size_t)(vp_rand(&s->rng) % (vp_rand(&s->rng) % 8 == 0 ? sizeof(buf) : 5000));
    ssize_t r = -1;
    const int how = (int)(vp_rand(&s->rng) % 5);
    const uint64_t sw = vp_self_switches();
    vp_errno_clear();
    switch (how) {
      case 0:
        FB_BLOCKING(s, "C08 read", r = read(c->rfd, buf, n));
        break;
      case 1:
        FB_BLOCKING(s, "C08 recv", r = recv(c->rfd, buf, n, 0));
        break;
      case 2: {
        struct iovec iv[2] = {{buf, n / 2}, {buf + n / 2, n - n / 2}};
        FB_BLOCKING(s, "C08 readv", r = readv(c->rfd, iv, 2));
        break;
      }
      case 3:
        FB_BLOCKING(s, "C08 recvfrom", r = recvfrom(c->rfd, buf, n, 0, NULL, NULL));
        break;
      default: {
        struct iovec iv = {buf, n};
        struct msghdr mh;
        memset(&mh, 0, sizeof(mh));
        mh.msg_iov = &iv;
        mh.msg_iovlen = 1;
        FB_BLOCKING(s, "C08 recvmsg", r = recvmsg(c->rfd, &mh, 0));
        break;
      }
    }
    int err = vp_errno();
    vp_add(c_calls[how], 1);
    if (vp_self_switches() != sw) vp_add(c_blocked_calls, 1);
    if (r < 0 && err == ENOTSOCK && how != 0 && how != 2) {
      vp_errno_clear();
      r = read(c->rfd, buf, n);
      err = vp_errno();
    }
    eagain_check(call_names[how], 1, r, err);
    if (r < 0) {
      vp_violation("C08", "io:read-failed", "trial %d scenario %d: %s returned %zd (errno %d) on a healthy connection at offset %zu of %zu", trial, scen, call_names[how], r, err, off, c->total);
      break;
    }
    if (r == 0) {
      if (!(c->close_after && off == c->total))
        vp_violation("C08", "io:empty-transfer", "trial %d scenario %d: %s returned 0 at stream offset %zu of %zu although the peer has not closed", trial, scen, call_names[how], off, c->total);
      break;
    }
    size_t i;
    for (i = 0; i < (size_t)r; ++i)
      if (buf[i] != stream_byte(c->id, off + i)) {
        vp_violation("C08", "io:stream-corrupt", "trial %d scenario %d: byte at stream offset %zu differs (data lost, duplicated or reordered)", trial, scen, off + i);
        return NULL;
      }
    off += (size_t)r;
    if (off > c->total) {
      vp_violation("C08", "io:stream-too-long", "trial %d: received %zu bytes of a %zu byte stream", trial, off, c->total);
      break;
    }
  }
  IO_GIVE_UP();
  return NULL;
}

static void* ticker(void* a) {
  (void)a;
  while (!atomic_load(&stop_ticker)) {
    atomic_fetch_add(&ticker_count, 1);
    fiber_yield();
  }
  return NULL;
}

static void shrink(int fd) {
  int v = 4096;
  setsockopt(fd, SOL_SOCKET, SO_SNDBUF, &v, sizeof(v));
  setsockopt(fd, SOL_SOCKET, SO_RCVBUF, &v, sizeof(v));
}

static int tcp_pair(int sv[2]) {
  int ls = socket(AF_INET, SOCK_STREAM, 0);
  if (ls < 0) return -1;
  struct sockaddr_in ad;
  memset(&ad, 0, sizeof(ad));
  ad.sin_family = AF_INET;
  ad.sin_addr.s_addr = htonl(INADDR_LOOPBACK);
  ad.sin_port = 0;
  socklen_t al = sizeof(ad);
  if (bind(ls, (struct sockaddr*)&ad, sizeof(ad)) || listen(ls, 8) || getsockname(ls, (struct sockaddr*)&ad, &al)) {
    close(ls);
    return -1;
  }
  int c = socket(AF_INET, SOCK_STREAM, 0);
  vp_errno_clear();
  int r = connect(c, (struct sockaddr*)&ad, sizeof(ad));
  vp_add(c_calls[11], 1);
  if (r != 0) {
    vp_violation("C08", "io:connect-failed", "trial %d: blocking connect to a listening loopback socket returned %d (errno %d)", trial, r, vp_errno());
    close(c);
    close(ls);
    return -1;
  }
  vp_errno_clear();
  int srv = accept(ls, NULL, NULL);
  vp_add(c_calls[10], 1);
  if (srv < 0) {
    vp_violation("C08", "io:accept-failed", "trial %d: blocking accept with a pending connection returned %d (errno %d)", trial, srv, vp_errno());
    close(c);
    close(ls);
    return -1;
  }
  close(ls);
  sv[0] = c;
  sv[1] = srv;
  return 0;
}

// ---- scenario 0: streams over socketpair / pipe / tcp, both directions, reader+writer blocked on one fd
static void scen_streams(uint64_t* rng) {
  static conn_t conns[16];
  static fb_slot_t* sl[64];
  int n = 0, k, nc = 1 + (int)(vp_rand(rng) % 4);
  fb_slot_t* tk = fb_spawn(ticker, NULL);
  const long tick0 = atomic_load(&ticker_count);
  int fds_to_close[64], nfd = 0;
  for (k = 0; k < nc; ++k) {
    const int type = (int)(vp_rand(rng) % 3);
    int sv[2] = {-1, -1};
    if (type == 0) {
      if (socketpair(AF_UNIX, SOCK_STREAM, 0, sv)) continue;
    } else if (type == 1) {
      int p[2];
      if (pipe(p)) continue;
      sv[0] = p[1];  // write end
      sv[1] = p[0];
    } else if (tcp_pair(sv)) {
      continue;
    }
    if (type != 1 && (vp_rand(rng) & 1)) {
      shrink(sv[0]);
      shrink(sv[1]);
    }
    if (type != 1 && (vp_rand(rng) % 3) == 0) {
      // an application that went non-blocking for a moment and restored the original flags: the streams below still have to park
      // only their own fiber when a buffer is full or empty
      int e;
      for (e = 0; e < 2; ++e) {
        const int fl = fcntl(sv[e], F_GETFL, 0);
        fcntl(sv[e], F_SETFL, fl | O_NONBLOCK);
        fcntl(sv[e], F_SETFL, fl & ~O_NONBLOCK);
      }
      vp_add(c_restore_fcntl, 1);
    }
    static const size_t totals[] = {1, 100, 4096, 65536, 300000, 1500000};
    conn_t* c = &conns[2 * k];
    memset(c, 0, sizeof(*c));
    c->id = (uint64_t)trial * 64 + (uint64_t)k * 2;
    c->wfd = sv[0];
    c->rfd = sv[1];
    c->total = totals[vp_rand(rng) % (vp_param("big", 1) ? 6 : 4)];
    c->close_after = 0;
    sl[n++] = fb_spawn(stream_reader, (void*)(intptr_t)c);
    sl[n++] = fb_spawn(stream_writer, (void*)(intptr_t)c);
    if (type != 1) {  // second stream in the opposite direction on the same descriptors
      conn_t* d = &conns[2 * k + 1];
      memset(d, 0, sizeof(*d));
      d->id = c->id + 1;
      d->wfd = sv[1];
      d->rfd = sv[0];
      d->total = totals[vp_rand(rng) % 5];
      sl[n++] = fb_spawn(stream_reader, (void*)(intptr_t)d);
      sl[n++] = fb_spawn(stream_writer, (void*)(intptr_t)d);
    }
    fds_to_close[nfd++] = sv[0];
    fds_to_close[nfd++] = sv[1];
  }
  fb_join_all(sl, n);
  if (vp_cfg.threads == 1 && n > 0 && vp_get(c_blocked_calls) > 0 && atomic_load(&ticker_count) == tick0)
    vp_violation("C08", "io:others-stalled", "trial %d: a ready ticker fiber made no progress while other fibers were blocked in I/O on the same kernel thread", trial);
  atomic_store(&stop_ticker, 1);
  fiber_join(tk->fiber, NULL);
  atomic_store(&stop_ticker, 0);
  for (k = 0; k < nfd; ++k) close(fds_to_close[k]);
}

// ---- scenario 1: EOF semantics: writer closes, reader must see the complete stream and then 0
static void scen_eof(uint64_t* rng) {
  static conn_t c;
  int sv[2];
  if (socketpair(AF_UNIX, SOCK_STREAM, 0, sv)) return;
  memset(&c, 0, sizeof(c));
  c.id = (uint64_t)trial * 64 + 40;
  c.wfd = sv[0];
  c.rfd = sv[1];
  c.total = 1 + (size_t)(vp_rand(rng) % 200000);
  c.close_after = 1;
  fb_slot_t* sl[2];
  sl[0] = fb_spawn(stream_reader, (void*)(intptr_t)&c);
  sl[1] = fb_spawn(stream_writer, (void*)(intptr_t)&c);
  fb_join_all(sl, 2);
  close(sv[1]);
}

// ---- scenario 1b: hang-up on a pipe. A reader parked on an empty pipe must see end-of-file when the last writer closes; a writer
// parked on a full pipe must get EPIPE when the last reader closes (the kernel reports these as hang-up/error conditions, not as
// "readable"/"writable").
static int hup_fd;
static _Atomic int hup_parked;
static void* hup_closer(void* a) {
  (void)a;
  int i;
  // let the peer park first (bounded), then a little longer
  for (i = 0; i < 2000 && !atomic_load(&hup_parked); ++i) fiber_yield();
  usleep(3000);
  close(hup_fd);
  return NULL;
}
static void scen_pipe_hangup(fb_slot_t* me, uint64_t* rng) {
  int p[2];
  if (pipe(p)) return;
  const int reader_side = (int)(vp_rand(rng) & 1);
  atomic_store(&hup_parked, 0);
  if (reader_side) {
    hup_fd = p[1];
    fb_slot_t* c = fb_spawn(hup_closer, NULL);
    char b[16];
    ssize_t r = -2;
    vp_errno_clear();
    atomic_store(&hup_parked, 1);
    FB_BLOCKING(me, "C08 read (empty pipe, the writer then closes: must return 0)", r = read(p[0], b, sizeof(b)));
    if (r != 0) vp_violation("C08", "io:eof-after-hangup", "trial %d: read on an empty pipe whose writer closed returned %zd (errno %d) instead of 0", trial, r, vp_errno());
    fiber_join(c->fiber, NULL);
    close(p[0]);
    vp_add(c_hup, 1);
  } else {
    hup_fd = p[0];
    static char big[1 << 16];
    memset(big, 7, sizeof(big));
    fb_slot_t* c = fb_spawn(hup_closer, NULL);
    ssize_t w = 0;
    int err = 0, rounds = 0;
    // fill the pipe until the call has to wait; the reader end is closed while we wait (or between two calls)
    for (;;) {
      vp_errno_clear();
      if (rounds > 2) atomic_store(&hup_parked, 1);
      FB_BLOCKING(me, "C08 write (full pipe, the reader then closes: must fail with EPIPE)", w = write(p[1], big, sizeof(big)));
      err = vp_errno();
      if (w < 0) break;
      if (++rounds > 4096) break;
    }
    if (!(w < 0 && err == EPIPE))
      vp_violation("C08", "io:epipe-after-hangup", "trial %d: writing into a pipe whose reader closed ended with %zd (errno %d) after %d full writes instead of EPIPE", trial, w, err, rounds);
    fiber_join(c->fiber, NULL);
    close(p[1]);
    vp_add(c_hup, 1);
  }
}

// ---- scenario 2: non-blocking modes must return at once (no context switch), with EAGAIN on an empty socket
static void nb_probe(fb_slot_t* s, int fd, const char* how, int msg_dontwait) {
  char b[16];
  const uint64_t sw = vp_self_switches();
  vp_errno_clear();
  ssize_t r;
  // a guard fiber writes one byte later so that a call that wrongly blocks still terminates and is judged here
  atomic_store(&s->where, "C08 non-blocking receive that must not block");
  r = msg_dontwait ? recv(fd, b, sizeof(b), MSG_DONTWAIT) : read(fd, b, sizeof(b));
  atomic_store(&s->where, (const char*)0);
  const int err = vp_errno();
  vp_add(c_nb_calls, 1);
  if (vp_self_switches() != sw)
    vp_violation("C08", "io:nonblocking-call-blocked", "trial %d: a receive on an empty socket made non-blocking via %s suspended the calling fiber", trial, how);
  else if (!(r < 0 && (err == EAGAIN || err == EWOULDBLOCK)))
    vp_violation("C08", "io:nonblocking-result", "trial %d: a receive on an empty socket made non-blocking via %s returned %zd (errno %d) instead of EAGAIN", trial, how, r, err);
}
static int guard_fd;
static void* guard_writer(void* a) {
  (void)a;
  usleep(30000);
  if (write(guard_fd, "x", 1) < 0) {
  }
  return NULL;
}
static void scen_nonblocking(fb_slot_t* me, uint64_t* rng) {
  int sv[2];
  const int way = (int)(vp_rand(rng) % 6);
  if (socketpair(AF_UNIX, SOCK_STREAM, 0, sv)) return;
  guard_fd = sv[1];
  fb_slot_t* g = fb_spawn(guard_writer, NULL);
  int one = 1;
  switch (way) {
    case 0:
      fcntl(sv[0], F_SETFL, O_NONBLOCK);
      nb_probe(me, sv[0], "fcntl(F_SETFL, O_NONBLOCK)", 0);
      break;
    case 1: {
      const int fl = fcntl(sv[0], F_GETFL, 0);
      fcntl(sv[0], F_SETFL, fl | O_NONBLOCK);
      nb_probe(me, sv[0], "fcntl(F_SETFL, fcntl(F_GETFL) | O_NONBLOCK)", 0);
      break;
    }
    case 2:
      ioctl(sv[0], FIONBIO, &one);
      nb_probe(me, sv[0], "ioctl(FIONBIO, 1)", 0);
      break;
    case 3:
      nb_probe(me, sv[0], "MSG_DONTWAIT", 1);
      break;
    default: {
      // back to blocking mode: the call must wait for the guard's byte instead of failing with EAGAIN - and it must wait as a fiber:
      // the kernel thread stays available (on one kernel thread the guard could otherwise never run)
      int zero = 0;
      if (way == 4) {
        fcntl(sv[0], F_SETFL, O_NONBLOCK);
        ioctl(sv[0], FIONBIO, &zero);
      } else {
        const int fl = fcntl(sv[0], F_GETFL, 0);
        fcntl(sv[0], F_SETFL, fl | O_NONBLOCK);
        fcntl(sv[0], F_SETFL, fl & ~O_NONBLOCK);  // "go non-blocking briefly, then restore"
        vp_add(c_restore_fcntl, 1);
      }
      char b[4];
      vp_errno_clear();
      ssize_t r = -1;
      FB_BLOCKING(me, "C08 read", r = read(sv[0], b, sizeof(b)));
      eagain_check(way == 4 ? "read after ioctl(FIONBIO, 0)" : "read after fcntl(F_SETFL, flags & ~O_NONBLOCK)", 1, r, vp_errno());
      if (r != 1) vp_violation("C08", "io:blocking-restored", "trial %d: read after switching back to blocking mode returned %zd (errno %d)", trial, r, vp_errno());
      break;
    }
  }
  fiber_join(g->fiber, NULL);
  close(sv[0]);
  close(sv[1]);
}

// ---- scenario 3: invalid descriptors: same outcome class as the real libc call, never a crash / OOB access
typedef ssize_t (*rw_fn)(int, void*, size_t);
static void scen_invalid(uint64_t* rng) {
  struct rlimit rl;
  getrlimit(RLIMIT_NOFILE, &rl);
  int sv[2];
  int closed_fd = -1;
  if (!socketpair(AF_UNIX, SOCK_STREAM, 0, sv)) {
    closed_fd = sv[0];
    close(sv[0]);
    close(sv[1]);
  }
  const long cand[] = {-1, -7, closed_fd, (long)rl.rlim_max, (long)rl.rlim_max + 5, 1 << 20, 0x7fffffff};
  rw_fn real_read = (rw_fn)dlsym(RTLD_NEXT, "read");
  int (*real_close)(int) = (int (*)(int))dlsym(RTLD_NEXT, "close");
  int (*real_fcntl)(int, int, ...) = (int (*)(int, int, ...))dlsym(RTLD_NEXT, "fcntl");
  unsigned i;
  (void)rng;
  for (i = 0; i < sizeof(cand) / sizeof(cand[0]); ++i) {
    const int fd = (int)cand[i];
    if (fd == closed_fd && fd < 0) continue;
    char b[8];
    int one = 1;
    struct {
      const char* name;
      long got;
      int gerr;
      long want;
      int werr;
    } r[8];
    int n = 0;
#define PROBE(nm, shim_expr, real_expr) \
  do {                                  \
    vp_errno_clear();                          \
    r[n].name = nm;                     \
    r[n].got = (long)(shim_expr);       \
    r[n].gerr = vp_errno();                  \
    vp_errno_clear();                          \
    r[n].want = (long)(real_expr);      \
    r[n].werr = vp_errno();                  \
    ++n;                                \
    vp_add(c_invalid_calls, 1);         \
  } while (0)
    PROBE("read", read(fd, b, sizeof(b)), real_read(fd, b, sizeof(b)));
    PROBE("write", write(fd, b, 1), -1L + 0 * (errno = EBADF));
    PROBE("recv", recv(fd, b, sizeof(b), 0), -1L + 0 * (errno = EBADF));
    PROBE("send", send(fd, b, 1, MSG_NOSIGNAL), -1L + 0 * (errno = EBADF));
    PROBE("fcntl(F_GETFL)", fcntl(fd, F_GETFL, 0), real_fcntl(fd, F_GETFL, 0));
    PROBE("fcntl(F_SETFL,O_NONBLOCK)", fcntl(fd, F_SETFL, O_NONBLOCK), real_fcntl(fd, F_SETFL, O_NONBLOCK));
    PROBE("ioctl(FIONBIO)", ioctl(fd, FIONBIO, &one), -1L + 0 * (errno = EBADF));
    PROBE("close", close(fd), real_close(fd));
    // the number must have stayed invalid throughout (another thread opening a file would reuse a just-closed number)
    vp_errno_clear();
    if (!(real_fcntl(fd, F_GETFD, 0) < 0 && vp_errno() == EBADF)) {
      vp_count("io_invalid_probe_discarded_number_reused", 1);
      continue;
    }
    int k;
    for (k = 0; k < n; ++k)
      if (r[k].want >= 0) break;  // the plain call succeeded: the number was valid at that moment
    if (k < n) {
      vp_count("io_invalid_probe_discarded_number_reused", 1);
      continue;
    }
    for (k = 0; k < n; ++k)
      if (!(r[k].got < 0 && r[k].gerr == EBADF))
        vp_violation("C08", "io:invalid-fd-result", "trial %d: %s on invalid descriptor %d returned %ld (errno %d); the plain call returns %ld (errno %d)", trial, r[k].name, fd,
                     r[k].got, r[k].gerr, r[k].want, r[k].werr);
  }
}

// ---- scenario 3b: the state a read() racing with close() on another kernel thread reaches: the descriptor was still managed when
// the call looked, and is closed by the time the call registers for its readiness. The wait must not park the fiber for a
// descriptor nobody can ever report on (and nobody will close again).
static void scen_wait_on_closed(fb_slot_t* me) {
  int sv[2];
  if (socketpair(AF_UNIX, SOCK_STREAM, 0, sv)) return;
  const int fd = sv[0];
  close(sv[0]);
  vp_errno_clear();
  int r = -7;
  FB_BLOCKING(me, "C08 fiber_wait_for_event on a descriptor that was closed between the caller's look and the registration", r = fiber_wait_for_event(fd, FIBER_POLL_IN));
  if (r != FIBER_ERROR)
    vp_violation("C08", "io:wait-on-closed-descriptor", "trial %d: fiber_wait_for_event on the closed descriptor %d returned %d instead of reporting an error", trial, fd, r);
  close(sv[1]);
  vp_count("io_waits_on_a_descriptor_closed_meanwhile", 1);
}

// ---- scenario 4: close wakes a fiber blocked on the descriptor
static int cw_fd;
static _Atomic int cw_result_ready;
static void* cw_reader(void* a) {
  fb_slot_t* s = (fb_slot_t*)a;
  char b[8];
  ssize_t r = 0;
  FB_BLOCKING(s, "C08 read (descriptor closed by another fiber)", r = read(cw_fd, b, sizeof(b)));
  if (r > 0) vp_violation("C08", "io:read-after-close", "trial %d: read on a descriptor closed while blocked returned %zd bytes", trial, r);
  vp_add(c_close_wakes, 1);
  atomic_store(&cw_result_ready, 1);
  return NULL;
}
static void scen_close_wakes(uint64_t* rng) {
  int sv[2];
  if (socketpair(AF_UNIX, SOCK_STREAM, 0, sv)) return;
  cw_fd = sv[0];
  atomic_store(&cw_result_ready, 0);
  const int nr = 1 + (int)(vp_rand(rng) % 3);
  fb_slot_t* sl[4];
  int i;
  for (i = 0; i < nr; ++i) sl[i] = fb_spawn(cw_reader, NULL);
  for (i = 0; i < 5 + (int)(vp_rand(rng) % 10); ++i) fiber_yield();
  usleep(2000);
  close(sv[0]);
  fb_join_all(sl, nr);
  close(sv[1]);
}

// ---- scenario 5: several acceptors, several connectors; datagrams with several receivers on one descriptor
static int ls_fd;
static struct sockaddr_in ls_addr;
static _Atomic int accepted_total, accept_target;
static void* acceptor(void* a) {
  fb_slot_t* s = (fb_slot_t*)a;
  const int quota = (int)s->c;
  int i;
  for (i = 0; i < quota; ++i) {
    int fd = -1;
    vp_errno_clear();
    FB_BLOCKING(s, "C08 accept", fd = accept(ls_fd, NULL, NULL));
    const int err = vp_errno();
    vp_add(c_calls[10], 1);
    eagain_check("accept", 1, fd, err);
    if (fd < 0) {
      vp_violation("C08", "io:accept-failed", "trial %d: blocking accept returned %d (errno %d) while connections are being made", trial, fd, err);
      break;
    }
    char b[4];
    ssize_t r = -1;
    FB_BLOCKING(s, "C08 read", r = read(fd, b, 1));
    if (r != 1) vp_violation("C08", "io:read-failed", "trial %d: read on an accepted connection returned %zd (errno %d)", trial, r, vp_errno());
    close(fd);
    atomic_fetch_add(&accepted_total, 1);
    vp_add(c_accepts, 1);
  }
  return NULL;
}
static void* connector(void* a) {
  fb_slot_t* s = (fb_slot_t*)a;
  const int quota = (int)s->c;
  int i;
  for (i = 0; i < quota; ++i) {
    int c = socket(AF_INET, SOCK_STREAM, 0);
    int r = -1;
    vp_errno_clear();
    FB_BLOCKING(s, "C08 connect", r = connect(c, (struct sockaddr*)&ls_addr, sizeof(ls_addr)));
    vp_add(c_calls[11], 1);
    if (r != 0) vp_violation("C08", "io:connect-failed", "trial %d: blocking connect returned %d (errno %d)", trial, r, vp_errno());
    else if (write(c, "y", 1) != 1) vp_violation("C08", "io:write-failed", "trial %d: write of one byte on a fresh connection failed (errno %d)", trial, vp_errno());
    if ((vp_rand(&s->rng) & 1)) fiber_yield();
    close(c);
  }
  return NULL;
}
static int dg_fd_r, dg_fd_w, dg_total;
static _Atomic uint8_t dg_seen[4096];
static _Atomic int dg_got;
static void* dg_receiver(void* a) {
  fb_slot_t* s = (fb_slot_t*)a;
  for (;;) {
    if (atomic_fetch_add(&dg_got, 1) >= dg_total) break;
    uint32_t v[4] = {0, 0, 0, 0};
    ssize_t r = -1;
    vp_errno_clear();
    // every receiving call of the library takes its turn: each has its own retry loop
    const unsigned how = (unsigned)s->c % 4;  // one API per receiver, all four present
    if (how == 0) {
      FB_BLOCKING(s, "C08 recv(datagram)", r = recv(dg_fd_r, v, sizeof(v), 0));
    } else if (how == 1) {
      FB_BLOCKING(s, "C08 recvfrom(datagram)", r = recvfrom(dg_fd_r, v, sizeof(v), 0, NULL, NULL));
    } else if (how == 2) {
      FB_BLOCKING(s, "C08 read(datagram)", r = read(dg_fd_r, v, sizeof(v)));
    } else {
      struct iovec iov = {v, sizeof(v)};
      struct msghdr mh;
      memset(&mh, 0, sizeof(mh));
      mh.msg_iov = &iov;
      mh.msg_iovlen = 1;
      FB_BLOCKING(s, "C08 recvmsg(datagram)", r = recvmsg(dg_fd_r, &mh, 0));
    }
    eagain_check(how == 0 ? "recv" : how == 1 ? "recvfrom" : how == 2 ? "read" : "recvmsg", 1, r, vp_errno());
    if (r != (ssize_t)sizeof(v) || v[1] != (v[0] ^ 0xabcdef) || v[0] >= 4096) {
      vp_violation("C08", "io:datagram-corrupt", "trial %d: datagram receive returned %zd (errno %d), record %u", trial, r, vp_errno(), v[0]);
      break;
    }
    if (atomic_exchange(&dg_seen[v[0]], 1))
      vp_violation("C08", "io:datagram-duplicate", "trial %d: datagram %u delivered twice", trial, v[0]);
    vp_add(c_dgrams, 1);
  }
  return NULL;
}
static void* dg_sender(void* a) {
  fb_slot_t* s = (fb_slot_t*)a;
  int i;
  for (i = 0; i < dg_total; ++i) {
    uint32_t v[4] = {(uint32_t)i, (uint32_t)i ^ 0xabcdef, 0, 0};
    ssize_t r = -1;
    vp_errno_clear();
    FB_BLOCKING(s, "C08 send(datagram)", r = send(dg_fd_w, v, sizeof(v), MSG_NOSIGNAL));
    eagain_check("send", 1, r, vp_errno());
    if (r != (ssize_t)sizeof(v)) {
      vp_violation("C08", "io:write-failed", "trial %d: datagram send returned %zd (errno %d)", trial, r, vp_errno());
      break;
    }
    if ((vp_rand(&s->rng) & 7) == 0) fiber_yield();
  }
  return NULL;
}
static void scen_many_waiters(uint64_t* rng) {
  static fb_slot_t* sl[32];
  int n = 0, i;
  // (a) acceptors
  ls_fd = socket(AF_INET, SOCK_STREAM, 0);
  memset(&ls_addr, 0, sizeof(ls_addr));
  ls_addr.sin_family = AF_INET;
  ls_addr.sin_addr.s_addr = htonl(INADDR_LOOPBACK);
  socklen_t al = sizeof(ls_addr);
  if (ls_fd >= 0 && !bind(ls_fd, (struct sockaddr*)&ls_addr, sizeof(ls_addr)) && !listen(ls_fd, 64) && !getsockname(ls_fd, (struct sockaddr*)&ls_addr, &al)) {
    const int A = 2 + (int)(vp_rand(rng) % 3), per = 2 + (int)(vp_rand(rng) % 6);
    atomic_store(&accepted_total, 0);
    for (i = 0; i < A; ++i) sl[n++] = fb_spawn(acceptor, (void*)(intptr_t)per);
    for (i = 0; i < A; ++i) sl[n++] = fb_spawn(connector, (void*)(intptr_t)per);
    fb_join_all(sl, n);
    n = 0;
  }
  if (ls_fd >= 0) close(ls_fd);
  // (b) several receivers blocked on one datagram socket
  int sv[2];
  if (!socketpair(AF_UNIX, SOCK_DGRAM, 0, sv)) {
    dg_fd_r = sv[0];
    dg_fd_w = sv[1];
    dg_total = 50 + (int)(vp_rand(rng) % 400);
    memset((void*)dg_seen, 0, sizeof(dg_seen));
    atomic_store(&dg_got, 0);
    const int R = 4 + (int)(vp_rand(rng) % 3);
    for (i = 0; i < R; ++i) sl[n++] = fb_spawn(dg_receiver, (void*)(intptr_t)i);
    sl[n++] = fb_spawn(dg_sender, NULL);
    fb_join_all(sl, n);
    for (i = 0; i < dg_total; ++i)
      if (!atomic_load(&dg_seen[i])) {
        vp_violation("C08", "io:datagram-lost", "trial %d: datagram %d of %d was never delivered", trial, i, dg_total);
        break;
      }
    close(sv[0]);
    close(sv[1]);
  }
}

// ---- scenario 6: connect to a port nobody listens on: error return, not a hang
static void scen_dead_port(fb_slot_t* me) {
  int tmp = socket(AF_INET, SOCK_STREAM, 0);
  struct sockaddr_in ad;
  memset(&ad, 0, sizeof(ad));
  ad.sin_family = AF_INET;
  ad.sin_addr.s_addr = htonl(INADDR_LOOPBACK);
  socklen_t al = sizeof(ad);
  if (tmp < 0 || bind(tmp, (struct sockaddr*)&ad, sizeof(ad)) || getsockname(tmp, (struct sockaddr*)&ad, &al)) {
    if (tmp >= 0) close(tmp);
    return;
  }
  close(tmp);  // the port is now (very likely) unused
  int c = socket(AF_INET, SOCK_STREAM, 0);
  int r = 0;
  vp_errno_clear();
  FB_BLOCKING(me, "C08 connect(dead port)", r = connect(c, (struct sockaddr*)&ad, sizeof(ad)));
  vp_add(c_calls[11], 1);
  if (r == 0) vp_note("connect to a supposedly dead port succeeded (port reused?)");
  else if (vp_errno() != ECONNREFUSED) vp_violation("C08", "io:connect-vp_errno()", "trial %d: connect to a dead port failed with vp_errno() %d instead of ECONNREFUSED", trial, vp_errno());
  close(c);
}

// ---- scenario 7: a reader and a writer blocked on the same descriptor in opposite directions; each must be resumed by
// readiness for its own direction even though the other one registered later / is still blocked
static int od_a, od_b;
static _Atomic int od_reader_done, od_writer_done;
static void* od_reader(void* a) {
  fb_slot_t* s = (fb_slot_t*)a;
  char b[4];
  ssize_t r = -1;
  FB_BLOCKING(s, "C08 read (while a writer is blocked on the same descriptor)", r = read(od_a, b, 1));
  if (r != 1) vp_violation("C08", "io:read-failed", "trial %d: read returned %zd (errno %d) with one byte available", trial, r, vp_errno());
  atomic_store(&od_reader_done, 1);
  return NULL;
}
static void* od_writer(void* a) {
  fb_slot_t* s = (fb_slot_t*)a;
  static char big[400000];
  size_t off = 0;
  while (off < sizeof(big)) {
    ssize_t r = -1;
    FB_BLOCKING(s, "C08 write (while a reader is blocked on the same descriptor)", r = write(od_a, big + off, sizeof(big) - off));
    if (r <= 0) {
      vp_violation("C08", "io:write-failed", "trial %d: write returned %zd (errno %d)", trial, r, vp_errno());
      break;
    }
    off += (size_t)r;
  }
  atomic_store(&od_writer_done, 1);
  return NULL;
}
static void scen_opposite(fb_slot_t* me, uint64_t* rng) {
  int sv[2];
  if (socketpair(AF_UNIX, SOCK_STREAM, 0, sv)) return;
  shrink(sv[0]);
  shrink(sv[1]);
  od_a = sv[0];
  od_b = sv[1];
  atomic_store(&od_reader_done, 0);
  atomic_store(&od_writer_done, 0);
  const int reader_first = (int)(vp_rand(rng) & 1);
  fb_slot_t *r, *w;
  if (reader_first) {
    r = fb_spawn(od_reader, NULL);
    usleep(3000);
    w = fb_spawn(od_writer, NULL);
  } else {
    w = fb_spawn(od_writer, NULL);
    usleep(3000);
    r = fb_spawn(od_reader, NULL);
  }
  usleep(6000);  // both are blocked now (nobody reads the peer, nobody has written to it)
  if (write(od_b, "z", 1) != 1) vp_violation("C08", "io:write-failed", "trial %d: one byte write to the idle direction failed", trial);
  // the reader is entitled to return now, while the writer is still blocked (its peer has not drained anything)
  FB_BLOCKING(me, "C08 fiber_join(reader entitled to return)", fiber_join(r->fiber, NULL));
  char sink[65536];
  size_t got = 0;
  while (got < 400000) {
    ssize_t n = -1;
    FB_BLOCKING(me, "C08 read (draining the blocked writer)", n = read(od_b, sink, sizeof(sink)));
    if (n <= 0) {
      vp_violation("C08", "io:read-failed", "trial %d: draining read returned %zd (errno %d)", trial, n, vp_errno());
      break;
    }
    got += (size_t)n;
  }
  FB_BLOCKING(me, "C08 fiber_join(writer entitled to return)", fiber_join(w->fiber, NULL));
  vp_count("io_opposite_direction_trials", 1);
  close(sv[0]);
  close(sv[1]);
}

// ---- scenario 8: assorted calls that the other scenarios do not reach
static int mw_fd;
static void* mw_writer(void* a) {  // blocks with a full buffer until another fiber closes the descriptor
  fb_slot_t* s = (fb_slot_t*)a;
  static char big[300000];
  size_t off = 0;
  for (;;) {
    ssize_t r = -1;
    FB_BLOCKING(s, "C08 write (descriptor closed by another fiber while blocked)", r = write(mw_fd, big + off, sizeof(big) - off));
    if (r <= 0) break;  // error return once the descriptor is gone
    off += (size_t)r;
    if (off >= sizeof(big)) {
      vp_violation("C08", "io:write-overcount", "trial %d: 300000 bytes were accepted by a 4 KB socket whose peer never reads", trial);
      break;
    }
  }
  vp_count("io_writers_woken_by_close", 1);
  return NULL;
}
static void scen_misc(fb_slot_t* me, uint64_t* rng) {
  // (a) UDP over loopback with explicit addresses: sendto / recvfrom / recvmsg, blocking receive before the datagram exists
  int a = socket(AF_INET, SOCK_DGRAM, 0), b = socket(AF_INET, SOCK_DGRAM, 0);
  struct sockaddr_in aa, ba, from;
  memset(&aa, 0, sizeof(aa));
  aa.sin_family = AF_INET;
  aa.sin_addr.s_addr = htonl(INADDR_LOOPBACK);
  ba = aa;
  socklen_t al = sizeof(aa), bl = sizeof(ba), fl = sizeof(from);
  if (a >= 0 && b >= 0 && !bind(a, (struct sockaddr*)&aa, sizeof(aa)) && !bind(b, (struct sockaddr*)&ba, sizeof(ba)) &&
      !getsockname(a, (struct sockaddr*)&aa, &al) && !getsockname(b, (struct sockaddr*)&ba, &bl)) {
    int i;
    for (i = 0; i < 20; ++i) {
      uint32_t out[2] = {(uint32_t)i, (uint32_t)i * 7 + 1}, in[2] = {0, 0};
      ssize_t w = -1, r = -1;
      vp_errno_clear();
      FB_BLOCKING(me, "C08 sendto(udp)", w = sendto(a, out, sizeof(out), 0, (struct sockaddr*)&ba, sizeof(ba)));
      eagain_check("sendto", 1, w, vp_errno());
      fl = sizeof(from);
      vp_errno_clear();
      if (i & 1) {
        FB_BLOCKING(me, "C08 recvfrom(udp)", r = recvfrom(b, in, sizeof(in), 0, (struct sockaddr*)&from, &fl));
      } else {
        struct iovec iv = {in, sizeof(in)};
        struct msghdr mh;
        memset(&mh, 0, sizeof(mh));
        mh.msg_iov = &iv;
        mh.msg_iovlen = 1;
        mh.msg_name = &from;
        mh.msg_namelen = sizeof(from);
        FB_BLOCKING(me, "C08 recvmsg(udp)", r = recvmsg(b, &mh, 0));
      }
      eagain_check("recvfrom/recvmsg", 1, r, vp_errno());
      if (w != (ssize_t)sizeof(out) || r != (ssize_t)sizeof(in) || in[0] != out[0] || in[1] != out[1] || from.sin_port != aa.sin_port)
        vp_violation("C08", "io:udp-roundtrip", "trial %d: udp datagram %d: sent %zd, received %zd (errno %d), payload %u/%u, source port %u vs %u", trial, i, w, r, vp_errno(),
                     in[0], in[1], ntohs(from.sin_port), ntohs(aa.sin_port));
      vp_count("io_udp_roundtrips", 1);
    }
  }
  if (a >= 0) close(a);
  if (b >= 0) close(b);
  // (b) non-blocking send on a full socket: EAGAIN at once, no context switch (MSG_DONTWAIT and O_NONBLOCK)
  int sv[2];
  if (!socketpair(AF_UNIX, SOCK_STREAM, 0, sv)) {
    shrink(sv[0]);
    shrink(sv[1]);
    char chunk[8192];
    memset(chunk, 'q', sizeof(chunk));
    const int via_flag = (int)(vp_rand(rng) & 1);
    if (!via_flag) fcntl(sv[0], F_SETFL, fcntl(sv[0], F_GETFL, 0) | O_NONBLOCK);
    int k;
    ssize_t r = 0;
    const uint64_t sw = vp_self_switches();
    for (k = 0; k < 200; ++k) {
      vp_errno_clear();
      r = via_flag ? send(sv[0], chunk, sizeof(chunk), MSG_DONTWAIT | MSG_NOSIGNAL) : write(sv[0], chunk, sizeof(chunk));
      if (r < 0) break;
    }
    const int err = vp_errno();
    if (vp_self_switches() != sw)
      vp_violation("C08", "io:nonblocking-call-blocked", "trial %d: a non-blocking %s on a filling socket suspended the calling fiber", trial, via_flag ? "send(MSG_DONTWAIT)" : "write(O_NONBLOCK)");
    else if (!(r < 0 && (err == EAGAIN || err == EWOULDBLOCK)))
      vp_violation("C08", "io:nonblocking-result", "trial %d: 200 non-blocking 8 KB writes to a 4 KB socket never reported EAGAIN (last result %zd, errno %d)", trial, r, err);
    vp_add(c_nb_calls, 1);
    // (c) a writer blocked on a full buffer is resumed with an error when the descriptor is closed
    if (via_flag) {
      mw_fd = sv[0];
      fb_slot_t* w = fb_spawn(mw_writer, NULL);
      usleep(4000);
      close(sv[0]);
      FB_BLOCKING(me, "C08 fiber_join(writer entitled to return after close)", fiber_join(w->fiber, NULL));
    } else {
      close(sv[0]);
    }
    close(sv[1]);
  }
  // (d) non-blocking connect returns at once (EINPROGRESS or success) and can be completed later
  int ls = socket(AF_INET, SOCK_STREAM, 0);
  struct sockaddr_in la;
  memset(&la, 0, sizeof(la));
  la.sin_family = AF_INET;
  la.sin_addr.s_addr = htonl(INADDR_LOOPBACK);
  socklen_t ll = sizeof(la);
  if (ls >= 0 && !bind(ls, (struct sockaddr*)&la, sizeof(la)) && !listen(ls, 4) && !getsockname(ls, (struct sockaddr*)&la, &ll)) {
    int c = socket(AF_INET, SOCK_STREAM, 0);
    int one = 1;
    ioctl(c, FIONBIO, &one);
    const uint64_t sw = vp_self_switches();
    vp_errno_clear();
    const int r = connect(c, (struct sockaddr*)&la, sizeof(la));
    const int err = vp_errno();
    if (vp_self_switches() != sw) vp_violation("C08", "io:nonblocking-call-blocked", "trial %d: connect on a socket in non-blocking mode suspended the calling fiber", trial);
    if (!(r == 0 || (r < 0 && err == EINPROGRESS))) vp_violation("C08", "io:nonblocking-result", "trial %d: non-blocking connect returned %d (errno %d)", trial, r, err);
    struct sockaddr_in peer;
    socklen_t pl = sizeof(peer);
    int srv = -1;
    vp_errno_clear();
    FB_BLOCKING(me, "C08 accept(with address)", srv = accept(ls, (struct sockaddr*)&peer, &pl));
    eagain_check("accept", 1, srv, vp_errno());
    if (srv < 0 || peer.sin_family != AF_INET) vp_violation("C08", "io:accept-failed", "trial %d: accept with an address buffer returned %d (errno %d, family %d)", trial, srv, vp_errno(), peer.sin_family);
    if (srv >= 0) close(srv);
    close(c);
    vp_add(c_calls[10], 1);
    vp_add(c_calls[11], 1);
  }
  if (ls >= 0) close(ls);
}

static void* root(void* x) {
  (void)x;
  const int trials = (int)vp_param("trials", 14);
  const int only = (int)vp_param("scenario", -1);
  int i;
  c_trials = vp_counter("io_trials");
  c_bytes = vp_counter("io_stream_bytes_transferred");
  for (i = 0; i < 12; ++i) c_calls[i] = vp_counter(call_names[i]);
  c_short = vp_counter("io_short_writes");
  c_blocked_calls = vp_counter("io_calls_that_suspended_the_fiber");
  c_nb_calls = vp_counter("io_nonblocking_probes");
  c_restore_fcntl = vp_counter("io_blocking_mode_restored_via_fcntl");
  c_hup = vp_counter("io_pipe_hangups_while_parked");
  c_invalid_calls = vp_counter("io_invalid_descriptor_probes");
  c_close_wakes = vp_counter("io_readers_woken_by_close");
  c_accepts = vp_counter("io_connections_accepted_with_several_acceptors");
  c_dgrams = vp_counter("io_datagrams_with_several_receivers");
  static const char* const sn[9] = {"io_scen_streams", "io_scen_eof", "io_scen_nonblocking", "io_scen_invalid_fd", "io_scen_close_wakes", "io_scen_many_waiters", "io_scen_dead_port", "io_scen_opposite_directions", "io_scen_misc_udp_nonblocking_send_connect"};
  for (i = 0; i < 9; ++i) c_scen[i] = vp_counter(sn[i]);
  uint64_t rng = vp_mix(vp_cfg.seed, 808);
  fb_slot_t* me = NULL;
  for (trial = 0; trial < trials; ++trial) {
    fb_slots_reset();
    me = fb_slot_new();
    // every scenario gets its turn (a fresh random order every nine trials)
    static int order[9];
    if (trial % 9 == 0) {
      int q;
      for (q = 0; q < 9; ++q) order[q] = q;
      for (q = 8; q > 0; --q) {
        const int j = (int)(vp_rand(&rng) % (unsigned)(q + 1)), t = order[q];
        order[q] = order[j];
        order[j] = t;
      }
    }
    scen = only >= 0 ? only : order[trial % 9];
    vp_add(c_scen[scen], 1);
    switch (scen) {
      case 0: scen_streams(&rng); break;
      case 1: if (vp_rand(&rng) & 1) scen_eof(&rng); else scen_pipe_hangup(me, &rng); break;
      case 2: scen_nonblocking(me, &rng); break;
      case 3: scen_invalid(&rng); scen_wait_on_closed(me); break;
      case 4: scen_close_wakes(&rng); break;
      case 5: scen_many_waiters(&rng); break;
      case 6: scen_dead_port(me); break;
      case 7: scen_opposite(me, &rng); break;
      default: scen_misc(me, &rng); break;
    }
    atomic_store(&me->finished, 1);
    vp_sig(vp_mix(((uint64_t)scen << 20) | (uint64_t)vp_cfg.threads, (uint64_t)vp_get(c_bytes) * 3 + (uint64_t)vp_get(c_blocked_calls)));
    if (trial < 3) vp_sample("io trial %d: scenario %d (%s) on %d kernel threads; so far %ld stream bytes, %ld calls suspended their fiber", trial, scen, sn[scen] + 8, vp_cfg.threads,
                             vp_get(c_bytes), vp_get(c_blocked_calls));
    vp_add(c_trials, 1);
    vp_case();
    if (vp_violation_count()) break;
  }
  return NULL;
}

int main(int argc, char** argv) {
  signal(SIGPIPE, SIG_IGN);  // EPIPE is reported through errno
  return fb_main(argc, argv, root);
}
