// C10: fiber_yield fairness. Bypass count of a ready fiber = number of switches its thread makes to other fibers
// while it sits in that thread's run queues (ghost monitor, from SCHEDULE/STEAL/SWITCH_PRE events).
#include "fb_common.h"
#include "fiber_mutex.h"
#include "fiber_signal.h"

static _Atomic int stop_flag;
static _Atomic long victim_runs, flag_set[64];
static int L, trial;
static fiber_mutex_t mu;
static vp_counter_t *c_trials, *c_yields, *c_victim_runs, *c_created_midrun, *c_pollers_done;

// yields that come back at once (no context switch) while a fiber is ready in this thread's own run queue are bypasses too, although
// the scheduler never switched. Judged when the very same ready fiber (same queue entry) is seen at B+1 and again at 2B+2
// consecutive such yields, B being the bound in force: it was ready throughout and was passed over more than B times.
static void checked_yield(fb_slot_t* s) {
  const uint64_t sw = vp_self_switches();
  fiber_yield();
  if (vp_self_switches() != sw) {
    s->a = 0;
    return;
  }
  const long B = vp_ghost_bypass_bound();
  if (!B) return;
  const long streak = ++s->a;
  if (streak == B + 1) {
    uint64_t mark = 0;
    const void* x = vp_ghost_ready_on_my_sched(&mark);
    s->b = (long)(uintptr_t)x;
    s->c_mark = mark;
  } else if (streak == 2 * B + 2 && s->b) {
    uint64_t mark = 0;
    const void* x = vp_ghost_ready_on_my_sched(&mark);
    if (x && (long)(uintptr_t)x == s->b && mark == s->c_mark)
      vp_violation("C10", "yield:returned-at-once-while-a-fiber-was-ready",
                   "trial %d: %ld consecutive fiber_yield() calls of fiber %d returned without a context switch while fiber %p sat ready (suspension completed, same queue entry) in the run queue of the same kernel thread; bound %ld",
                   trial, streak, s->id, x, B);
  }
}

static void* forever_yielder(void* a) {
  fb_slot_t* s = (fb_slot_t*)a;
  atomic_store(&s->where, "C10 yield loop waiting for a flag set by another ready fiber");
  s->a = 0;
  while (!atomic_load(&stop_flag)) {
    checked_yield(s);
    vp_add(c_yields, 1);
  }
  atomic_store(&s->where, (const char*)0);
  return NULL;
}
static void* victim(void* a) {
  fb_slot_t* s = (fb_slot_t*)a;
  int i;
  for (i = 0; i < L; ++i) {
    atomic_fetch_add(&victim_runs, 1);
    vp_add(c_victim_runs, 1);
    vp_progress();
    fiber_yield();
  }
  (void)s;
  return NULL;
}
static void* poller(void* a) {  // waits for a flag set by the fiber created after it
  fb_slot_t* s = (fb_slot_t*)a;
  const int idx = (int)s->c;
  atomic_store(&s->where, "C10 yield-polling loop");
  while (!atomic_load(&flag_set[idx])) fiber_yield();
  atomic_store(&s->where, (const char*)0);
  vp_add(c_pollers_done, 1);
  vp_progress();
  return NULL;
}
static void* setter(void* a) {
  fb_slot_t* s = (fb_slot_t*)a;
  int i;
  for (i = 0; i < 3; ++i) fiber_yield();
  atomic_store(&flag_set[(int)s->c], 1);
  return NULL;
}
static void* blocker(void* a) {  // mixes blocking calls into the ready set
  fb_slot_t* s = (fb_slot_t*)a;
  int i;
  for (i = 0; i < 20 && !atomic_load(&stop_flag); ++i) {
    fiber_mutex_lock(&mu);
    fiber_yield();
    fiber_mutex_unlock(&mu);
    if ((vp_rand(&s->rng) & 3) == 0) usleep(1000);
    fiber_yield();
  }
  return NULL;
}
static void* short_child(void* a) {
  (void)a;
  fiber_yield();
  return NULL;
}
static void* creator(void* a) {
  fb_slot_t* s = (fb_slot_t*)a;
  int i;
  for (i = 0; i < 10 && !atomic_load(&stop_flag); ++i) {
    fiber_t* f = fiber_create(FB_STACK, short_child, NULL);
    vp_add(c_created_midrun, 1);
    fiber_yield();
    fiber_join(f, NULL);
  }
  (void)s;
  return NULL;
}

// hand-off pairs: two fibers that never yield but keep waking each other through blocking calls (raise/wait ping-pong). Whatever
// the scheduler does with a woken fiber, the fibers sitting in fiber_yield() on the same thread still get their turn.
#define MAXPAIRS 8
static fiber_signal_t ho_ping[MAXPAIRS], ho_pong[MAXPAIRS];
static _Atomic int ho_done[MAXPAIRS];
static vp_counter_t* c_handoffs;
static void* handoff_a(void* a) {
  fb_slot_t* s = (fb_slot_t*)a;
  const int k = (int)s->c;
  while (!atomic_load(&stop_flag)) {
    fiber_signal_raise(&ho_ping[k]);
    FB_BLOCKING(s, "C10 fiber_signal_wait (hand-off pair)", fiber_signal_wait(&ho_pong[k]));
    vp_add(c_handoffs, 1);
  }
  atomic_store(&ho_done[k], 1);
  fiber_signal_raise(&ho_ping[k]);
  return NULL;
}
static void* handoff_b(void* a) {
  fb_slot_t* s = (fb_slot_t*)a;
  const int k = (int)s->c;
  for (;;) {
    FB_BLOCKING(s, "C10 fiber_signal_wait (hand-off pair)", fiber_signal_wait(&ho_ping[k]));
    if (atomic_load(&ho_done[k])) break;
    fiber_signal_raise(&ho_pong[k]);
  }
  return NULL;
}

static void* root(void* x) {
  (void)x;
  const int trials = (int)vp_param("trials", 12);
  const int maxn = (int)vp_param("maxn", 48);
  c_trials = vp_counter("yield_trials");
  c_yields = vp_counter("yield_calls_by_forever_yielders");
  c_victim_runs = vp_counter("yield_victim_runs");
  c_created_midrun = vp_counter("yield_fibers_created_midrun");
  c_pollers_done = vp_counter("yield_polling_loops_terminated");
  c_handoffs = vp_counter("yield_handoffs_between_blocking_pairs");
  uint64_t rng = vp_mix(vp_cfg.seed, 1010);
  long maxbypass_short = 0, maxbypass_long = 0;
  for (trial = 0; trial < trials; ++trial) {
    // alternate short and long yield loops: the bound must not depend on the loop length
    L = (trial & 1) ? (int)vp_param("long", 20000) : (int)vp_param("short", 500);
    int NY = 1 + (int)(vp_rand(&rng) % (unsigned)(maxn / 2));
    // every third trial uses a large population (run-queue batches longer than any fixed cap, queues beyond their
    // initial 256 slots)
    if (trial % 3 == 1) NY = 60 + (int)(vp_rand(&rng) % 80);
    if (trial % 3 == 2) NY = 250 + (int)(vp_rand(&rng) % 150);
    if (NY > 200 && L > 2000) L = 2000;
    const int NV = 1 + (int)(vp_rand(&rng) % 4);
    const int NB = (int)(vp_rand(&rng) % 4);
    const int NC = (int)(vp_rand(&rng) % 3);
    const int NP = (int)(vp_rand(&rng) % 6);
    const int NH = (trial % 2) ? 1 + (int)(vp_rand(&rng) % MAXPAIRS) : 0;
    atomic_store(&stop_flag, 0);
    fiber_mutex_init(&mu);
    fb_slots_reset();
    static fb_slot_t* sl[1024];
    int n = 0, i, nv0;
    vp_ghost_reset_bypass();
    // fairness bound: 2 x live fibers + 2 on one thread; stealing can add up to 50 entries per balance
    vp_ghost_set_bypass_limit(vp_cfg.threads == 1 ? 2 : 66, 2);
    for (i = 0; i < NY; ++i) sl[n++] = fb_spawn(forever_yielder, NULL);
    for (i = 0; i < NP; ++i) {
      atomic_store(&flag_set[i], 0);
      sl[n++] = fb_spawn(poller, (void*)(intptr_t)i);
    }
    nv0 = n;
    for (i = 0; i < NV; ++i) sl[n++] = fb_spawn(victim, NULL);
    for (i = 0; i < NP; ++i) sl[n++] = fb_spawn(setter, (void*)(intptr_t)i);
    for (i = 0; i < NB; ++i) sl[n++] = fb_spawn(blocker, NULL);
    for (i = 0; i < NC; ++i) sl[n++] = fb_spawn(creator, NULL);
    for (i = 0; i < NH; ++i) {
      fiber_signal_init(&ho_ping[i]);
      fiber_signal_init(&ho_pong[i]);
      atomic_store(&ho_done[i], 0);
      sl[n++] = fb_spawn(handoff_a, (void*)(intptr_t)i);
      sl[n++] = fb_spawn(handoff_b, (void*)(intptr_t)i);
    }
    // victims finish only if they are not starved; then release the forever-yielders
    for (i = nv0; i < nv0 + NV; ++i) fiber_join(sl[i]->fiber, NULL);
    atomic_store(&stop_flag, 1);
    for (i = 0; i < n; ++i)
      if (i < nv0 || i >= nv0 + NV) fiber_join(sl[i]->fiber, NULL);
    vp_ghost_set_bypass_limit(0, 0);
    const long mb = vp_ghost_max_bypass();
    if (trial & 1) {
      if (mb > maxbypass_long) maxbypass_long = mb;
    } else if (mb > maxbypass_short) maxbypass_short = mb;
    vp_sig(vp_mix(((uint64_t)NY << 24) | ((uint64_t)NV << 16) | ((uint64_t)NB << 12) | ((uint64_t)NC << 8) | (uint64_t)NP, (uint64_t)L * 31 + (uint64_t)mb));
    if (trial < 2) vp_sample("yield trial %d: %d forever-yielders, %d victims x %d runs, %d pollers+setters, %d blockers, %d creators on %d kernel thread(s): max bypass %ld",
                             trial, NY, NV, L, NP, NB, NC, vp_cfg.threads, mb);
    fiber_mutex_destroy(&mu);
    vp_add(c_trials, 1);
    vp_case();
    if (vp_violation_count()) break;
  }
  vp_counter("yield_max_bypass_short_loops")->v = maxbypass_short;
  vp_counter("yield_max_bypass_long_loops")->v = maxbypass_long;
  return NULL;
}

int main(int argc, char** argv) { return fb_main(argc, argv, root); }
