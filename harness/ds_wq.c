// C17: work queue. Every thread pushes items; whoever is told START_WORKING drains with get_work until EMPTY.
// No harness-side drain: an item left queued with no worker is exactly the violation.
#include "ds_common.h"
#include "work_queue.h"

static work_queue_t wq;
static long quota;
static int cur_round, micro_round;
static pthread_t worker0;
static _Atomic int worker0_known, early_stop;
static vp_counter_t *c_push, *c_start, *c_items, *c_sessions_multi, *c_rounds, *c_empty, *c_held;

// ops: PUSH val (res OK = QUEUED, ABORT = START_WORKING), POP (get_work) res OK val / EMPTY
static void round_fn(ds_worker_t* w) {
  uint64_t seq = 0;
  ds_start_line();
  // micro rounds: a handful of pushes in all, the late pushers arriving while the first one is finishing its session; nobody pushes
  // afterwards, so an item left behind by a miscounted hand-over stays behind
  if (w->id == 0) {
    worker0 = pthread_self();
    atomic_store(&worker0_known, 1);
  }
  // micro rounds: the first thread pushes and drains on its own until it is told to stop; in preempt runs it is interrupted wherever
  // it happens to be in a session (as the OS could) and held there while each late thread does its single push. Nobody pushes
  // afterwards, so an item left behind by a miscounted hand-over stays behind.
  long my_quota = quota;
  if (micro_round) {
    if (w->id == 0) {
      my_quota = 1000000;
    } else if (w->id == 1) {
      my_quota = 1;
      ds_tiny_delay(&w->rng, 2000);
      if (atomic_load(&worker0_known) && vp_preempt_now(worker0)) vp_add(c_held, 1);
      atomic_store(&early_stop, 1);
    } else {
      my_quota = 1;
      while (!atomic_load(&early_stop)) {
      }
    }
  }
  while ((long)seq < my_quota && !(micro_round && w->id == 0 && atomic_load(&early_stop))) {
    const uint64_t val = ((uint64_t)(w->id + 1) << 40) | ++seq;
    work_queue_item_t* it = (work_queue_item_t*)malloc(sizeof(*it));
    it->data = (void*)(uintptr_t)val;
    vp_op_t* o = vp_log_begin(&w->log, w->id, VP_OP_PUSH, val);
    const int r = work_queue_push(&wq, it);
    o->ret = vp_stamp();
    o->res = (r == WORK_QUEUE_START_WORKING) ? VP_RES_ABORT : VP_RES_OK;
    vp_add(c_push, 1);
    if (r == WORK_QUEUE_START_WORKING) {
      vp_add(c_start, 1);
      long handed = 0;
      for (;;) {
        work_queue_item_t* out = NULL;
        vp_op_t* g = vp_log_begin(&w->log, w->id, VP_OP_POP, 0);
        const int gr = work_queue_get_work(&wq, &out);
        if (gr == WORK_QUEUE_EMPTY) {
          vp_log_end(g, VP_RES_EMPTY, 0);
          vp_add(c_empty, 1);
          break;
        }
        vp_log_end(g, VP_RES_OK, (uint64_t)(uintptr_t)out->data);
        ++handed;
        vp_add(c_items, 1);
        free(out);
        if ((vp_rand(&w->rng) & 7) == 0) ds_tiny_delay(&w->rng, 200);
      }
      if (handed > 1) vp_add(c_sessions_multi, 1);
    }
    if ((vp_rand(&w->rng) & 3) == 0) ds_tiny_delay(&w->rng, 500);
  }
}

// sequential facts, including a session whose counters cross 2^32 (fast-forwarded consistently: as if that many items
// had been pushed and handed out in this session): pushes during an open session are QUEUED, never START_WORKING
static void wq_sequential_prefix(void) {
  work_queue_t q;
  work_queue_init(&q);
  work_queue_item_t* it = (work_queue_item_t*)calloc(1, sizeof(*it));
  work_queue_item_t* out = NULL;
  if (work_queue_push(&q, it) != WORK_QUEUE_START_WORKING) vp_violation("C17", "wq:seq-first-push", "first push into an idle queue was not told to start working");
  if (work_queue_get_work(&q, &out) != WORK_QUEUE_MORE_WORK || !out) vp_violation("C17", "wq:seq-get", "worker did not get the item it pushed");
  const int64_t D = 0x100000000LL - 60;
  q.in_count += D;
  q.out_count += D;
  int i;
  for (i = 0; i < 200; ++i) {
    work_queue_item_t* n = out ? out : (work_queue_item_t*)calloc(1, sizeof(*n));
    out = NULL;
    n->data = (void*)(uintptr_t)(i + 1);
    if (work_queue_push(&q, n) != WORK_QUEUE_QUEUED) {
      vp_violation("C17", "wq:two-workers", "push #%lld of an open session was told START_WORKING while the worker has not been told EMPTY", (long long)(D + 2 + i));
      break;
    }
    if (work_queue_get_work(&q, &out) != WORK_QUEUE_MORE_WORK || !out || out->data != (void*)(uintptr_t)(i + 1)) {
      vp_violation("C17", "wq:seq-get", "worker did not get item %d back in an open session", i);
      break;
    }
  }
  work_queue_item_t* none = NULL;
  if (work_queue_get_work(&q, &none) != WORK_QUEUE_EMPTY) vp_violation("C17", "wq:seq-empty", "drained queue did not report EMPTY");
  vp_count("wq_sequential_session_crossing_2pow32", 1);
  work_queue_destroy(&q);
}

void ds_sub_wq(void) {
  const long rounds = vp_param("rounds", 100);
  const long ops = vp_param("ops", 4000);
  c_push = vp_counter("wq_push");
  c_start = vp_counter("wq_start_working");
  c_items = vp_counter("wq_items_handed_out");
  c_sessions_multi = vp_counter("wq_sessions_with_items_of_other_pushers");
  c_empty = vp_counter("wq_empty");
  c_rounds = vp_counter("wq_rounds");
  c_held = vp_counter("wq_first_pusher_interrupted_mid_session");
  uint64_t rng = vp_mix(vp_cfg.seed, 1717);
  wq_sequential_prefix();
  const long micro = vp_param("micro", 1500);
  for (cur_round = 0; cur_round < rounds + micro; ++cur_round) {
    int T = 1 + (int)(vp_rand(&rng) % (unsigned)ds_nworkers);
    quota = ops / T;
    if (quota < 1) quota = 1;
    micro_round = cur_round >= rounds;
    atomic_store(&early_stop, 0);
    if (micro_round) {
      T = ds_nworkers < 2 ? 1 : 2 + (int)(vp_rand(&rng) % (unsigned)(ds_nworkers > 4 ? 3 : ds_nworkers - 1));
      quota = 1 + (long)(vp_rand(&rng) % 3);
      vp_count("wq_micro_rounds", 1);
    }
    // the queue object is re-used round after round: every second round it starts from garbage, as an object in non-zero memory would
    if (cur_round & 1) memset(&wq, 0xA5, sizeof(wq));
    work_queue_init(&wq);
    int i;
    for (i = 0; i < T; ++i) vp_log_reset(&ds_w[i].log);
    ds_run_round(T, round_fn);
    vp_hist_t h;
    ds_history_begin(&h, T);
    char ctx[64];
    snprintf(ctx, sizeof(ctx), "round %d (%d pushers)", cur_round, T);
    // items: exactly once, none stranded
    vp_report_t rep = {"C17", "work_queue"};
    vp_val_t* vals;
    // mark START_WORKING pushes as 0x81; they are successful pushes too
    size_t j;
    for (j = 0; j < h.n; ++j)
      if (h.ops[j].op == VP_OP_PUSH && h.ops[j].res == VP_RES_ABORT) h.ops[j].res = 0x81;
    // (0x81 marks START pushes; vp_vals_build only accepts res == VP_RES_OK, so normalise a copy)
    vp_hist_t h2;
    h2.n = h.n;
    h2.ops = (vp_op_t*)malloc((h.n ? h.n : 1) * sizeof(vp_op_t));
    memcpy(h2.ops, h.ops, h.n * sizeof(vp_op_t));
    for (j = 0; j < h2.n; ++j)
      if (h2.ops[j].res == 0x81) h2.ops[j].res = VP_RES_OK;
    size_t nv = vp_vals_build(&h2, &vals, &rep, ctx);
    size_t k;
    long stranded = 0;
    for (k = 0; k < nv; ++k)
      if (!vals[k].takes && stranded++ < 3)
        vp_violation("C17", "wq:stranded-item", "%s: item %llx was pushed (returned %llu) but never handed to a worker, and no worker is active",
                     ctx, (unsigned long long)vals[k].val, (unsigned long long)vals[k].pr);
    // EMPTY legal only if every push that returned before the call was invoked has already been handed out
    // (hand-out invoked before the EMPTY call returned)
    qsort(vals, nv, sizeof(vp_val_t), vp_cmp_pr);
    uint64_t* pmax = (uint64_t*)malloc((nv ? nv : 1) * sizeof(uint64_t));
    for (k = 0; k < nv; ++k) {
      const uint64_t qi = vals[k].takes ? vals[k].qi : VP_INF;
      pmax[k] = (k && pmax[k - 1] > qi) ? pmax[k - 1] : qi;
    }
    // worker exclusivity: sessions [START push returned, final get_work invoked]; sort sessions by start
    uint64_t last_final_inv = 0;
    int have_prev = 0;
    // collect sessions in order of START return stamp
    typedef struct {
      uint64_t start_ret, final_inv;
      unsigned thr;
    } sess_t;
    sess_t* ss = (sess_t*)malloc((h.n ? h.n : 1) * sizeof(sess_t));
    size_t ns = 0;
    for (j = 0; j < h.n; ++j)
      if (h.ops[j].op == VP_OP_PUSH && h.ops[j].res == 0x81) {
        // final get_work of this thread's session: first EMPTY pop of the same thread invoked after this push
        size_t q;
        uint64_t fin = 0;
        for (q = j + 1; q < h.n; ++q)
          if (h.ops[q].thr == h.ops[j].thr && h.ops[q].op == VP_OP_POP && h.ops[q].res == VP_RES_EMPTY) {
            fin = h.ops[q].inv;
            break;
          }
        ss[ns].start_ret = h.ops[j].ret;
        ss[ns].final_inv = fin ? fin : VP_INF;
        ss[ns].thr = h.ops[j].thr;
        ++ns;
      }
    // definite overlap of two sessions [START returned, final get_work invoked]: sort by start, sweep max end
    {
      size_t x, y;
      for (x = 1; x < ns; ++x) {  // insertion sort (few sessions out of order)
        sess_t t = ss[x];
        for (y = x; y > 0 && ss[y - 1].start_ret > t.start_ret; --y) ss[y] = ss[y - 1];
        ss[y] = t;
      }
    }
    uint64_t max_final = 0;
    unsigned max_thr = 0;
    for (k = 0; k < ns; ++k) {
      if (have_prev && ss[k].start_ret < max_final) {
        vp_violation("C17", "wq:two-workers",
                     "%s: thread %u was told to start working (push returned %llu) before the previous worker (thread %u) invoked its final get_work (%llu)",
                     ctx, ss[k].thr, (unsigned long long)ss[k].start_ret, max_thr, (unsigned long long)max_final);
        break;
      }
      if (ss[k].final_inv > max_final) {
        max_final = ss[k].final_inv;
        max_thr = ss[k].thr;
      }
      have_prev = 1;
    }
    (void)last_final_inv;
    for (j = 0; j < h.n; ++j) {
      const vp_op_t* e = &h.ops[j];
      if (e->op != VP_OP_POP || e->res != VP_RES_EMPTY) continue;
      size_t lo = 0, hi = nv;
      while (lo < hi) {
        size_t mid = (lo + hi) / 2;
        if (vals[mid].pr < e->inv) lo = mid + 1;
        else hi = mid;
      }
      if (lo && pmax[lo - 1] > e->ret) {
        vp_violation("C17", "wq:empty-with-item-queued",
                     "%s: worker thread %u was told EMPTY during [%llu,%llu] although an item whose push had returned before the call had not been handed out",
                     ctx, e->thr, (unsigned long long)e->inv, (unsigned long long)e->ret);
        break;
      }
    }
    free(pmax);
    free(ss);
    free(vals);
    free(h2.ops);
    // restore result codes for the signature
    for (j = 0; j < h.n; ++j)
      if (h.ops[j].res == 0x81) h.ops[j].res = VP_RES_ABORT;
    ds_history_end(&h, ctx);
    work_queue_destroy(&wq);
    vp_add(c_rounds, 1);
    if (vp_violation_count()) break;
  }
}
