#include "ds_common.h"
#define STUB(n) __attribute__((weak)) void n(void) { fprintf(stderr, #n " not built\n"); exit(2); }
STUB(ds_sub_mpmc) STUB(ds_sub_hazard) STUB(ds_sub_mpsc) STUB(ds_sub_spsc) STUB(ds_sub_mpscr) STUB(ds_sub_ring)
STUB(ds_sub_wq) STUB(ds_sub_lifo) STUB(ds_sub_dist) STUB(ds_sub_stack) STUB(ds_sub_selftest)
