// Operation histories and offline checkers (DESIGN.md §3.5).
// Every client call is bracketed by two stamps from one global atomic counter, so "a.ret < b.inv" really
// means a returned before b was invoked. Values are unique. Checkers flag only DEFINITE violations.
#ifndef VP_HIST_H
#define VP_HIST_H

#include "vp_rt.h"

enum { VP_OP_PUSH = 1, VP_OP_POP = 2, VP_OP_STEAL = 3 };
enum { VP_RES_OK = 1, VP_RES_EMPTY = 2, VP_RES_FAIL = 3, VP_RES_ABORT = 4 };

typedef struct vp_op {
  uint64_t inv, ret;
  uint64_t val;
  uint8_t op, res;
  uint16_t thr;
} vp_op_t;

typedef struct vp_log {
  vp_op_t* ops;
  size_t n, cap;
  char pad[40];
} vp_log_t;

extern _Atomic uint64_t vp_clock;

static inline uint64_t vp_stamp(void) { return atomic_fetch_add_explicit(&vp_clock, 1, memory_order_seq_cst); }

static inline void vp_log_reset(vp_log_t* l) { l->n = 0; }
static inline vp_op_t* vp_log_begin(vp_log_t* l, int thr, int op, uint64_t val) {
  if (l->n == l->cap) {
    l->cap = l->cap ? l->cap * 2 : 1024;
    l->ops = (vp_op_t*)realloc(l->ops, l->cap * sizeof(vp_op_t));
    if (!l->ops) abort();
  }
  vp_op_t* o = &l->ops[l->n++];
  o->thr = (uint16_t)thr;
  o->op = (uint8_t)op;
  o->val = val;
  o->res = 0;
  o->ret = 0;
  o->inv = vp_stamp();
  return o;
}
static inline void vp_log_end(vp_op_t* o, int res, uint64_t val) {
  o->ret = vp_stamp();
  o->res = (uint8_t)res;
  if (res == VP_RES_OK && o->op != VP_OP_PUSH) o->val = val;
}

// ----------------------------------------------------------------------------------------------
// merged view
typedef struct vp_hist {
  vp_op_t* ops;  // all ops, sorted by inv
  size_t n;
} vp_hist_t;

static int vp_cmp_inv(const void* a, const void* b) {
  const vp_op_t *x = (const vp_op_t*)a, *y = (const vp_op_t*)b;
  return x->inv < y->inv ? -1 : x->inv > y->inv;
}

static inline void vp_hist_merge(vp_hist_t* h, vp_log_t* logs, int nlogs) {
  size_t n = 0;
  int i;
  for (i = 0; i < nlogs; ++i) n += logs[i].n;
  h->ops = (vp_op_t*)malloc((n ? n : 1) * sizeof(vp_op_t));
  h->n = 0;
  for (i = 0; i < nlogs; ++i) {
    if (logs[i].n) memcpy(h->ops + h->n, logs[i].ops, logs[i].n * sizeof(vp_op_t));
    h->n += logs[i].n;
  }
  qsort(h->ops, h->n, sizeof(vp_op_t), vp_cmp_inv);
}
static inline void vp_hist_free(vp_hist_t* h) {
  free(h->ops);
  h->ops = NULL;
  h->n = 0;
}

// signature of the observed interleaving: sequence of (thread, op, result) in invocation order, plus whether
// at least one pair of operations of different threads overlapped in time (non-trivial)
static inline uint64_t vp_hist_signature(const vp_hist_t* h, int* nontrivial) {
  uint64_t s = 0xcbf29ce484222325ULL, maxret = 0;
  int overl = 0;
  size_t i;
  for (i = 0; i < h->n; ++i) {
    const vp_op_t* o = &h->ops[i];
    s = (s ^ (((uint64_t)o->thr << 8) | ((uint64_t)o->op << 4) | o->res)) * 0x100000001b3ULL;
    if (o->inv < maxret) overl = 1;  // some earlier-invoked op had not returned yet
    if (o->ret > maxret) maxret = o->ret;
  }
  if (nontrivial) *nontrivial = overl;
  return s;
}

// ----------------------------------------------------------------------------------------------
// per-value table built from a history
typedef struct vp_val {
  uint64_t val;
  uint64_t pi, pr;  // push interval (pr==0: never pushed)
  uint64_t qi, qr;  // take interval (qr==0: never taken)
  uint32_t takes;
  uint16_t pthr, qthr;
  uint8_t qop;
} vp_val_t;

static int vp_cmp_val(const void* a, const void* b) {
  const vp_val_t *x = (const vp_val_t*)a, *y = (const vp_val_t*)b;
  return x->val < y->val ? -1 : x->val > y->val;
}
static int vp_cmp_pi(const void* a, const void* b) {
  const vp_val_t *x = (const vp_val_t*)a, *y = (const vp_val_t*)b;
  return x->pi < y->pi ? -1 : x->pi > y->pi;
}
static int vp_cmp_pr(const void* a, const void* b) {
  const vp_val_t *x = (const vp_val_t*)a, *y = (const vp_val_t*)b;
  return x->pr < y->pr ? -1 : x->pr > y->pr;
}

typedef struct vp_ev {
  uint64_t t;
  int d;
} vp_ev_t;
static int vp_cmp_ev(const void* a, const void* b) {
  const vp_ev_t *x = (const vp_ev_t*)a, *y = (const vp_ev_t*)b;
  return x->t < y->t ? -1 : x->t > y->t;
}

typedef struct vp_report {
  const char* prop;
  const char* what;  // structure name for messages
  long phantom, dup, lost, early, order, empty_illegal, fail_illegal, capacity, lifo;
} vp_report_t;

#define VP_INF (~(uint64_t)0)

// Builds the value table. Successful PUSH ops define values; successful POP/STEAL ops take them.
// Returns number of values; *out is malloc'ed, sorted by val.
static inline size_t vp_vals_build(const vp_hist_t* h, vp_val_t** out, vp_report_t* r, const char* ctx) {
  size_t np = 0, i;
  for (i = 0; i < h->n; ++i)
    if (h->ops[i].op == VP_OP_PUSH && h->ops[i].res == VP_RES_OK) ++np;
  vp_val_t* v = (vp_val_t*)calloc(np ? np : 1, sizeof(vp_val_t));
  size_t k = 0;
  for (i = 0; i < h->n; ++i) {
    const vp_op_t* o = &h->ops[i];
    if (o->op == VP_OP_PUSH && o->res == VP_RES_OK) {
      v[k].val = o->val;
      v[k].pi = o->inv;
      v[k].pr = o->ret;
      v[k].pthr = o->thr;
      ++k;
    }
  }
  qsort(v, np, sizeof(vp_val_t), vp_cmp_val);
  for (i = 1; i < np; ++i)
    if (v[i].val == v[i - 1].val) {
      fprintf(stderr, "harness bug: duplicate pushed value %llx\n", (unsigned long long)v[i].val);
      abort();
    }
  for (i = 0; i < h->n; ++i) {
    const vp_op_t* o = &h->ops[i];
    if ((o->op == VP_OP_POP || o->op == VP_OP_STEAL) && o->res == VP_RES_OK) {
      vp_val_t key;
      key.val = o->val;
      vp_val_t* f = (vp_val_t*)bsearch(&key, v, np, sizeof(vp_val_t), vp_cmp_val);
      if (!f) {
        r->phantom++;
        if (r->phantom <= 3)
          vp_violation(r->prop, "hist:phantom", "%s %s: thread %u obtained value %llx that was never pushed", r->what, ctx,
                       o->thr, (unsigned long long)o->val);
        continue;
      }
      f->takes++;
      if (f->takes > 1) {
        r->dup++;
        if (r->dup <= 3)
          vp_violation(r->prop, "hist:duplicate", "%s %s: value %llx handed out twice (threads %u and %u)", r->what, ctx,
                       (unsigned long long)o->val, f->qthr, o->thr);
        continue;
      }
      f->qi = o->inv;
      f->qr = o->ret;
      f->qthr = o->thr;
      f->qop = o->op;
      if (o->ret < f->pi) {
        r->early++;
        if (r->early <= 3)
          vp_violation(r->prop, "hist:taken-before-pushed", "%s %s: value %llx returned (stamp %llu) before its push was invoked (%llu)",
                       r->what, ctx, (unsigned long long)o->val, (unsigned long long)o->ret, (unsigned long long)f->pi);
      }
    }
  }
  *out = v;
  return np;
}

// every pushed value taken exactly once (call only when the history ends with a complete drain)
static inline void vp_check_no_loss(vp_val_t* v, size_t n, vp_report_t* r, const char* ctx) {
  size_t i;
  for (i = 0; i < n; ++i)
    if (v[i].takes == 0) {
      r->lost++;
      if (r->lost <= 3)
        vp_violation(r->prop, "hist:lost", "%s %s: pushed value %llx (producer thread %u) was never returned although the structure was drained",
                     r->what, ctx, (unsigned long long)v[i].val, v[i].pthr);
    }
}

// FIFO w.r.t. real-time order: push(a) returned before push(b) invoked, yet take(b) returned before take(a) invoked
// (or a never taken while b is). v is re-sorted by pi.
static inline void vp_check_fifo(vp_val_t* v, size_t n, vp_report_t* r, const char* ctx, int unpopped_counts) {
  if (!n) return;
  vp_val_t* bypr = (vp_val_t*)malloc(n * sizeof(vp_val_t));
  memcpy(bypr, v, n * sizeof(vp_val_t));
  qsort(bypr, n, sizeof(vp_val_t), vp_cmp_pr);
  qsort(v, n, sizeof(vp_val_t), vp_cmp_pi);
  size_t j = 0, i;
  uint64_t max_qi = 0;
  const vp_val_t* arg = NULL;
  for (i = 0; i < n; ++i) {
    const vp_val_t* b = &v[i];
    while (j < n && bypr[j].pr < b->pi) {
      uint64_t qi = bypr[j].takes ? bypr[j].qi : (unpopped_counts ? VP_INF : 0);
      if (qi > max_qi) {
        max_qi = qi;
        arg = &bypr[j];
      }
      ++j;
    }
    if (b->takes && arg && max_qi > b->qr) {
      r->order++;
      if (r->order <= 3)
        vp_violation(r->prop, "hist:fifo-order",
                     "%s %s: push(%llx) returned at %llu before push(%llx) was invoked at %llu, but %llx was taken (returned %llu) before the take of %llx %s",
                     r->what, ctx, (unsigned long long)arg->val, (unsigned long long)arg->pr, (unsigned long long)b->val,
                     (unsigned long long)b->pi, (unsigned long long)b->val, (unsigned long long)b->qr,
                     (unsigned long long)arg->val, arg->takes ? "was even invoked" : "(never taken)");
    }
  }
  free(bypr);
}

// Illegal EMPTY (queue rule): some value was definitely inside for the whole call (its push returned before the
// call was invoked and its take was invoked after the call returned, or never) AND no push overlapped the call.
static inline void vp_check_empty(const vp_hist_t* h, vp_val_t* v, size_t n, vp_report_t* r, const char* ctx) {
  if (!n) return;
  size_t i;
  qsort(v, n, sizeof(vp_val_t), vp_cmp_pr);
  uint64_t* pmax = (uint64_t*)malloc(n * sizeof(uint64_t));
  size_t* parg = (size_t*)malloc(n * sizeof(size_t));
  for (i = 0; i < n; ++i) {
    uint64_t qi = v[i].takes ? v[i].qi : VP_INF;
    if (i == 0 || qi > pmax[i - 1]) {
      pmax[i] = qi;
      parg[i] = i;
    } else {
      pmax[i] = pmax[i - 1];
      parg[i] = parg[i - 1];
    }
  }
  // pushes (any result) in invocation order with prefix max of their return stamps
  uint64_t* exmax = (uint64_t*)malloc((h->n + 1) * sizeof(uint64_t));
  uint64_t* exinv = (uint64_t*)malloc((h->n + 1) * sizeof(uint64_t));
  size_t ne = 0;
  for (i = 0; i < h->n; ++i) {
    const vp_op_t* o = &h->ops[i];
    if (o->op == VP_OP_PUSH) {
      exinv[ne] = o->inv;
      exmax[ne] = (ne && exmax[ne - 1] > o->ret) ? exmax[ne - 1] : o->ret;
      ++ne;
    }
  }
  for (i = 0; i < h->n; ++i) {
    const vp_op_t* e = &h->ops[i];
    if (!(e->op == VP_OP_POP || e->op == VP_OP_STEAL) || e->res != VP_RES_EMPTY) continue;
    size_t lo = 0, hi = n;
    while (lo < hi) {
      size_t mid = (lo + hi) / 2;
      if (v[mid].pr < e->inv) lo = mid + 1;
      else hi = mid;
    }
    if (lo == 0) continue;
    if (!(pmax[lo - 1] > e->ret)) continue;  // no value definitely inside throughout
    size_t l2 = 0, h2 = ne;
    while (l2 < h2) {
      size_t mid = (l2 + h2) / 2;
      if (exinv[mid] < e->ret) l2 = mid + 1;
      else h2 = mid;
    }
    if (l2 > 0 && exmax[l2 - 1] > e->inv) continue;  // a push was in flight during the call
    const vp_val_t* w = &v[parg[lo - 1]];
    r->empty_illegal++;
    if (r->empty_illegal <= 3)
      vp_violation(r->prop, "hist:illegal-empty",
                   "%s %s: thread %u got EMPTY during [%llu,%llu] although value %llx was inside for the whole call (push returned %llu, take %s%llu) and no push overlapped the call",
                   r->what, ctx, e->thr, (unsigned long long)e->inv, (unsigned long long)e->ret, (unsigned long long)w->val,
                   (unsigned long long)w->pr, w->takes ? "invoked at " : "never/", (unsigned long long)(w->takes ? w->qi : 0));
  }
  free(pmax);
  free(parg);
  free(exmax);
  free(exinv);
}

// LIFO rule: b definitely above a when a is popped (push(a).ret < push(b).inv, push(b).ret < pop(a).inv, and
// pop(b) not invoked before pop(a) returned) -> violation. O(n^2) worst case, histories are short.
static inline void vp_check_lifo(vp_val_t* v, size_t n, vp_report_t* r, const char* ctx) {
  size_t i, j;
  qsort(v, n, sizeof(vp_val_t), vp_cmp_pi);
  for (i = 0; i < n; ++i) {
    const vp_val_t* a = &v[i];
    if (!a->takes) continue;
    for (j = i + 1; j < n && v[j].pi < a->qi; ++j) {
      const vp_val_t* b = &v[j];
      if (b->pi > a->pr && b->pr < a->qi && (!b->takes || b->qi > a->qr)) {
        r->lifo++;
        if (r->lifo <= 3)
          vp_violation(r->prop, "hist:lifo-order",
                       "%s %s: %llx was popped during [%llu,%llu] while %llx (pushed later, during [%llu,%llu]) was still on top (its pop %s%llu)",
                       r->what, ctx, (unsigned long long)a->val, (unsigned long long)a->qi, (unsigned long long)a->qr,
                       (unsigned long long)b->val, (unsigned long long)b->pi, (unsigned long long)b->pr,
                       b->takes ? "invoked at " : "never happened/", (unsigned long long)b->qi);
        break;
      }
    }
  }
}

// Bounded buffer: (#pushes returned by t) - (#takes invoked by t) is a lower bound of the occupancy at t.
static inline void vp_check_capacity(const vp_hist_t* h, long capacity, vp_report_t* r, const char* ctx) {
  // events: push.ret (+1), take.inv (-1) for successful ops; process in stamp order
  size_t n = 0, i;
  vp_ev_t* ev = (vp_ev_t*)malloc((h->n ? h->n : 1) * sizeof(vp_ev_t));
  for (i = 0; i < h->n; ++i) {
    const vp_op_t* o = &h->ops[i];
    if (o->res != VP_RES_OK) continue;
    ev[n].t = o->op == VP_OP_PUSH ? o->ret : o->inv;
    ev[n].d = o->op == VP_OP_PUSH ? 1 : -1;
    ++n;
  }
  qsort(ev, n, sizeof(vp_ev_t), vp_cmp_ev);
  long occ = 0;
  for (i = 0; i < n; ++i) {
    occ += ev[i].d;
    if (occ > capacity) {
      r->capacity++;
      if (r->capacity <= 3)
        vp_violation(r->prop, "hist:over-capacity",
                     "%s %s: at stamp %llu at least %ld items are inside (pushes returned minus takes invoked) but capacity is %ld",
                     r->what, ctx, (unsigned long long)ev[i].t, occ, capacity);
      break;
    }
  }
  free(ev);
}

// Exact rule for a failed try-operation that no other operation overlaps: the state is then sequentially determined.
// occupancy = successful pushes returned before - successful takes returned before.
// A failed push is legal only if occupancy == capacity; a failed take only if occupancy == 0.
static inline void vp_check_isolated_fail(const vp_hist_t* h, long capacity, vp_report_t* r, const char* ctx) {
  size_t i;
  vp_ev_t* ev = (vp_ev_t*)malloc((h->n ? h->n : 1) * sizeof(vp_ev_t));
  size_t n = 0;
  for (i = 0; i < h->n; ++i) {
    const vp_op_t* o = &h->ops[i];
    if (o->res != VP_RES_OK) continue;
    ev[n].t = o->ret;
    ev[n].d = o->op == VP_OP_PUSH ? 1 : -1;
    ++n;
  }
  qsort(ev, n, sizeof(vp_ev_t), vp_cmp_ev);
  uint64_t maxret_prev = 0;  // max ret among ops invoked earlier
  size_t k = 0;
  long occ = 0;
  for (i = 0; i < h->n; ++i) {
    const vp_op_t* o = &h->ops[i];
    const int failed = (o->res == VP_RES_FAIL || o->res == VP_RES_EMPTY);
    if (failed) {
      const int overl_before = maxret_prev > o->inv;
      const int overl_after = (i + 1 < h->n) && h->ops[i + 1].inv < o->ret;
      if (!overl_before && !overl_after) {
        while (k < n && ev[k].t < o->inv) occ += ev[k++].d;
        if (o->op == VP_OP_PUSH && occ < capacity) {
          r->fail_illegal++;
          if (r->fail_illegal <= 3)
            vp_violation(r->prop, "hist:illegal-full",
                         "%s %s: thread %u push failed during [%llu,%llu] with no concurrent operation while exactly %ld of %ld slots were used",
                         r->what, ctx, o->thr, (unsigned long long)o->inv, (unsigned long long)o->ret, occ, capacity);
        }
        if (o->op != VP_OP_PUSH && occ > 0) {
          r->empty_illegal++;
          if (r->empty_illegal <= 3)
            vp_violation(r->prop, "hist:illegal-empty",
                         "%s %s: thread %u take failed during [%llu,%llu] with no concurrent operation while exactly %ld items were inside",
                         r->what, ctx, o->thr, (unsigned long long)o->inv, (unsigned long long)o->ret, occ);
        }
      }
    }
    if (o->ret > maxret_prev) maxret_prev = o->ret;
  }
  free(ev);
}

#endif
