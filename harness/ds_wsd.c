// C02 (a): Chase-Lev work-stealing deque, one owner + k thieves, unique values.
#include "ds_common.h"
#include "work_stealing_deque.h"

static wsd_work_stealing_deque_t* dq;
static _Atomic uint8_t* taken;
static uint64_t* steal_inv;  // per seq: invocation stamp of the steal that took it (0 = not stolen)
static size_t max_vals;
static _Atomic int owner_done;
static _Atomic int steal_gate;  // shape 3: thieves start only when the owner is about to grow the array
static int shape;  // 0 small, 1 grow, 2 mixed
static long round_ops;
static int cur_round;

typedef struct {
  uint64_t seq, stamp;
} must_t;
static must_t* must;  // values that must have been stolen by a steal invoked before 'stamp'
static size_t nmust, capmust;
static uint64_t next_seq;
static long max_size_seen;

static vp_counter_t *c_push, *c_pop_ok, *c_pop_empty, *c_pop_abort, *c_steal_ok, *c_steal_abort, *c_steal_empty,
    *c_rounds, *c_maxsize, *c_empty_with_mirror;

#define VAL(seq) ((void*)(uintptr_t)((seq) + 16))
#define SEQ(p) ((uint64_t)(uintptr_t)(p)-16)

static void take(uint64_t seq, int thr, const char* how) {
  if (seq == 0 || seq >= max_vals) {
    vp_violation("C02", "wsd:phantom", "round %d: thread %d %s returned value %llx that was never pushed", cur_round, thr,
                 how, (unsigned long long)seq);
    return;
  }
  uint8_t exp = 0;
  if (!atomic_compare_exchange_strong(&taken[seq], &exp, 1)) {
    vp_violation("C02", "wsd:duplicate", "round %d (shape %d): entry %llu handed to two takers (second: thread %d via %s)",
                 cur_round, shape, (unsigned long long)seq, thr, how);
  }
}

static void add_must(uint64_t seq, uint64_t stamp) {
  if (nmust == capmust) {
    capmust = capmust ? capmust * 2 : 1024;
    must = (must_t*)realloc(must, capmust * sizeof(must_t));
  }
  must[nmust].seq = seq;
  must[nmust].stamp = stamp;
  ++nmust;
}

static void owner_round(ds_worker_t* w) {
  uint64_t* mirror = (uint64_t*)malloc((size_t)(round_ops + 8) * sizeof(uint64_t));
  size_t msz = 0;
  long step;
  int growing = 1;
  long target = 260 + (long)(vp_rand(&w->rng) % 900);
  ds_start_line();
  for (step = 0;; ++step) {
    int do_push;
    const int finishing = step >= round_ops;
    if (finishing) {
      do_push = 0;
    } else if (shape == 3) {
      // growth race: fill to one below the growth boundary with the thieves held back, release them, then do the growing
      // push (and a few more) while they drain the old array
      if (msz == 255 && !atomic_load(&steal_gate)) atomic_store(&steal_gate, 1);
      do_push = step < 256 + (long)(target % 4);
      if (!do_push) step = round_ops;  // continue with the finishing pops
      if (!do_push) continue;
    } else if (shape == 0) {
      do_push = msz < 1 + (vp_rand(&w->rng) & 1);
    } else if (shape == 1) {
      if (growing && (long)msz >= target) growing = 0;
      if (!growing && msz == 0) {
        growing = 1;
        target = 250 + (long)(vp_rand(&w->rng) % 600);
      }
      do_push = growing;
    } else {
      do_push = (vp_rand(&w->rng) % 100) < 52 || msz == 0;
    }
    if (do_push) {
      const uint64_t seq = ++next_seq;
      mirror[msz++] = seq;
      if ((long)msz > max_size_seen) max_size_seen = (long)msz;
      vp_op_t* o = ds_hist ? vp_log_begin(&w->log, w->id, VP_OP_PUSH, seq) : NULL;
      wsd_work_stealing_deque_push_bottom(dq, VAL(seq));
      if (o) vp_log_end(o, VP_RES_OK, seq);
      vp_add(c_push, 1);
    } else {
      vp_op_t* o = ds_hist ? vp_log_begin(&w->log, w->id, VP_OP_POP, 0) : NULL;
      void* r = wsd_work_stealing_deque_pop_bottom(dq);
      if (r == WSD_EMPTY || r == WSD_ABORT) {
        if (o) vp_log_end(o, r == WSD_EMPTY ? VP_RES_EMPTY : VP_RES_ABORT, 0);
        vp_add(r == WSD_EMPTY ? c_pop_empty : c_pop_abort, 1);
        // the deque is empty now: everything the owner still believes inside must have been stolen,
        // by steals that were invoked before this call returned
        if (msz) vp_add(c_empty_with_mirror, 1);
        size_t i;
        for (i = 0; i < msz; ++i) add_must(mirror[i], o ? o->ret : 0);
        msz = 0;
        if (finishing && r == WSD_EMPTY) break;
      } else {
        const uint64_t seq = SEQ(r);
        if (o) vp_log_end(o, VP_RES_OK, seq);
        vp_add(c_pop_ok, 1);
        take(seq, w->id, "pop_bottom");
        if (msz == 0 || mirror[msz - 1] != seq) {
          vp_violation("C02", "wsd:owner-pop-wrong-entry",
                       "round %d: owner pop returned entry %llu but the newest entry it still holds is %llu (mirror size %zu)",
                       cur_round, (unsigned long long)seq, (unsigned long long)(msz ? mirror[msz - 1] : 0), msz);
          // resynchronise the mirror
          size_t i;
          for (i = msz; i > 0; --i)
            if (mirror[i - 1] == seq) break;
          if (i) msz = i - 1;
        } else {
          --msz;
        }
      }
    }
    if (shape == 0 && (vp_rand(&w->rng) & 7) == 0) ds_tiny_delay(&w->rng, 200);
  }
  atomic_store(&owner_done, 1);
  free(mirror);
}

static void thief_round(ds_worker_t* w) {
  ds_start_line();
  while (!atomic_load(&steal_gate) && !atomic_load(&owner_done)) __asm__ __volatile__("pause" ::: "memory");
  for (;;) {
    const int done = atomic_load(&owner_done);
    vp_op_t* o = ds_hist ? vp_log_begin(&w->log, w->id, VP_OP_STEAL, 0) : NULL;
    void* r = wsd_work_stealing_deque_steal(dq);
    if (r == WSD_EMPTY) {
      if (o) w->log.n--;  // EMPTY steals are not kept (they would dominate the log)
      vp_add(c_steal_empty, 1);
      if (done) break;
      ds_tiny_delay(&w->rng, 60);
    } else if (r == WSD_ABORT) {
      if (o) vp_log_end(o, VP_RES_ABORT, 0);
      vp_add(c_steal_abort, 1);
    } else {
      const uint64_t seq = SEQ(r);
      if (o) {
        vp_log_end(o, VP_RES_OK, seq);
        if (seq < max_vals) steal_inv[seq] = o->inv;
      }
      vp_add(c_steal_ok, 1);
      take(seq, w->id, "steal");
      if ((vp_rand(&w->rng) & 3) == 0) ds_tiny_delay(&w->rng, 100);
    }
  }
}

static void round_fn(ds_worker_t* w) {
  if (w->id == 0) owner_round(w);
  else thief_round(w);
}

typedef struct {
  uint64_t inv, ret, seq;
} st_t;
static int cmp_st_inv(const void* a, const void* b) {
  const st_t *x = a, *y = b;
  return x->inv < y->inv ? -1 : x->inv > y->inv;
}
static int cmp_st_ret(const void* a, const void* b) {
  const st_t *x = a, *y = b;
  return x->ret < y->ret ? -1 : x->ret > y->ret;
}

void ds_sub_wsd(void) {
  const long rounds = vp_param("rounds", 50);
  round_ops = vp_param("ops", 20000);
  const int fixed_shape = (int)vp_param("shape", -1);
  const int fixed_thieves = (int)vp_param("thieves", -1);
  c_push = vp_counter("wsd_push");
  c_pop_ok = vp_counter("wsd_pop_ok");
  c_pop_empty = vp_counter("wsd_pop_empty");
  c_pop_abort = vp_counter("wsd_pop_abort_lost_last_element_race");
  c_steal_ok = vp_counter("wsd_steal_ok");
  c_steal_abort = vp_counter("wsd_steal_abort");
  c_steal_empty = vp_counter("wsd_steal_empty");
  c_rounds = vp_counter("wsd_rounds");
  c_maxsize = vp_counter("wsd_max_queue_length");
  c_empty_with_mirror = vp_counter("wsd_owner_found_empty_after_thieves_took_all");
  max_vals = (size_t)round_ops + 16;
  taken = calloc(max_vals, 1);
  steal_inv = calloc(max_vals, sizeof(uint64_t));
  uint64_t rng = vp_mix(vp_cfg.seed, 4242);
  for (cur_round = 0; cur_round < rounds; ++cur_round) {
    shape = fixed_shape >= 0 ? fixed_shape : (int)(vp_rand(&rng) % 4);
    int thieves = fixed_thieves >= 0 ? fixed_thieves : (int)(vp_rand(&rng) % (unsigned)ds_nworkers);
    if (thieves > ds_nworkers - 1) thieves = ds_nworkers - 1;
    dq = wsd_work_stealing_deque_create();
    if (vp_rand(&rng) & 1) {
      // indices start just below 2^32: crossing it must be a non-event for 64-bit top/bottom
      const int64_t start = 0x100000000LL - 64 - (int64_t)(vp_rand(&rng) % 512);
      dq->top = start;
      dq->bottom = start;
      vp_count("wsd_rounds_crossing_2pow32", 1);
    }
    memset((void*)taken, 0, max_vals);
    memset(steal_inv, 0, max_vals * sizeof(uint64_t));
    next_seq = 0;
    nmust = 0;
    atomic_store(&owner_done, 0);
    atomic_store(&steal_gate, shape == 3 ? 0 : 1);
    int i;
    for (i = 0; i <= thieves; ++i) vp_log_reset(&ds_w[i].log);
    ds_run_round(thieves + 1, round_fn);
    // conservation: every pushed entry taken exactly once (duplicates were flagged online)
    uint64_t s;
    long lost = 0;
    for (s = 1; s <= next_seq; ++s)
      if (!taken[s] && lost++ < 3)
        vp_violation("C02", "wsd:lost", "round %d (shape %d, %d thieves): entry %llu was pushed but never popped or stolen",
                     cur_round, shape, thieves, (unsigned long long)s);
    if (wsd_work_stealing_deque_size(dq) != 0)
      vp_violation("C02", "wsd:not-empty-at-end", "round %d: deque reports %zu entries after the owner saw EMPTY", cur_round,
                   wsd_work_stealing_deque_size(dq));
    if (ds_hist) {
      // owner saw EMPTY/ABORT: what it still held must have been taken by steals invoked before that call returned
      size_t k;
      for (k = 0; k < nmust; ++k) {
        const uint64_t q = must[k].seq;
        if (steal_inv[q] == 0 || steal_inv[q] > must[k].stamp) {
          vp_violation("C02", "wsd:empty-while-entry-inside",
                       "round %d: owner pop reported empty/abort (returned at %llu) although entry %llu was still inside (steal %s%llu)",
                       cur_round, (unsigned long long)must[k].stamp, (unsigned long long)q,
                       steal_inv[q] ? "invoked later at " : "never happened/", (unsigned long long)steal_inv[q]);
          break;
        }
      }
      // steals take the oldest entry: steal A returned before steal B invoked => A's entry older than B's
      vp_hist_t h;
      ds_history_begin(&h, thieves + 1);
      size_t ns = 0, j;
      st_t* a = malloc((h.n ? h.n : 1) * sizeof(st_t));
      for (j = 0; j < h.n; ++j)
        if (h.ops[j].op == VP_OP_STEAL && h.ops[j].res == VP_RES_OK) {
          a[ns].inv = h.ops[j].inv;
          a[ns].ret = h.ops[j].ret;
          a[ns].seq = h.ops[j].val;
          ++ns;
        }
      st_t* b = malloc((ns ? ns : 1) * sizeof(st_t));
      memcpy(b, a, ns * sizeof(st_t));
      qsort(a, ns, sizeof(st_t), cmp_st_inv);
      qsort(b, ns, sizeof(st_t), cmp_st_ret);
      uint64_t maxseq = 0;
      size_t jb = 0;
      for (j = 0; j < ns; ++j) {
        while (jb < ns && b[jb].ret < a[j].inv) {
          if (b[jb].seq > maxseq) maxseq = b[jb].seq;
          ++jb;
        }
        if (a[j].seq < maxseq) {
          vp_violation("C02", "wsd:steal-order",
                       "round %d: a steal invoked at %llu returned entry %llu although a steal that had already returned took the newer entry %llu",
                       cur_round, (unsigned long long)a[j].inv, (unsigned long long)a[j].seq, (unsigned long long)maxseq);
          break;
        }
      }
      free(a);
      free(b);
      char ctx[96];
      snprintf(ctx, sizeof(ctx), "wsd round %d shape=%d thieves=%d", cur_round, shape, thieves);
      ds_history_end(&h, ctx);
    } else {
      // raw mode: signature = (shape, thieves, outcome classes seen)
      vp_sig(vp_mix(((uint64_t)shape << 8) | (uint64_t)thieves,
                    (vp_get(c_pop_abort) ? 1 : 0) | (vp_get(c_steal_abort) ? 2 : 0) | ((max_size_seen > 255) ? 4 : 0)));
      vp_progress();
      vp_case();
    }
    vp_add(c_rounds, 1);
    vp_max(c_maxsize, max_size_seen);
    wsd_work_stealing_deque_destroy(dq);
    if (vp_violation_count()) break;
  }
}
