#include "fb_common.h"
#include <sys/socket.h>

fb_slot_t fb_slots[FB_MAX_SLOTS];
_Atomic int fb_nslots;

static _Atomic unsigned fb_cursor;
static _Atomic unsigned char fb_used[FB_MAX_SLOTS];  // 0 free, 1 in use, 2 being initialised, 3 released by its spawner

fb_slot_t* fb_slot_new(void) {
  // slots of finished fibers are recycled (long thorough runs create far more fibers than there are slots)
  unsigned tries;
  for (tries = 0; tries < 4 * FB_MAX_SLOTS; ++tries) {
    const unsigned i = atomic_fetch_add(&fb_cursor, 1) % FB_MAX_SLOTS;
    unsigned char exp = 0;
    fb_slot_t* s = &fb_slots[i];
    // only slots that were never used, or that their spawner released after joining the fiber, are taken
    if (atomic_load(&fb_used[i]) == 3) exp = 3;
    if (!atomic_compare_exchange_strong(&fb_used[i], &exp, 2)) continue;
    memset(s, 0, sizeof(*s));
    s->id = (int)i;
    s->rng = vp_mix(vp_cfg.seed, 5000 + (uint64_t)atomic_load(&fb_cursor));
    atomic_store(&fb_used[i], 1);
    int n = atomic_load(&fb_nslots);
    while ((int)i + 1 > n && !atomic_compare_exchange_weak(&fb_nslots, &n, (int)i + 1)) {
    }
    return s;
  }
  fprintf(stderr, "too many live harness fibers\n");
  _exit(2);
}

void fb_slots_reset(void) {
  // called between trials when no harness fiber is alive
  int i;
  for (i = 0; i < FB_MAX_SLOTS; ++i) atomic_store(&fb_used[i], 0);
  atomic_store(&fb_cursor, 0);
  atomic_store(&fb_nslots, 0);
}

void (*fb_stranded_diag)(void);

void fb_stranded_cb(void) {
  if (fb_stranded_diag) fb_stranded_diag();
  const int n = atomic_load(&fb_nslots);
  int i, j, reported = 0;
  const char* seen[16];
  int nseen = 0;
  for (i = 0; i < n && i < FB_MAX_SLOTS; ++i) {
    const char* w = atomic_load(&fb_slots[i].where);
    if (!w || atomic_load(&fb_slots[i].finished)) continue;
    int dup = 0;
    for (j = 0; j < nseen; ++j)
      if (!strcmp(seen[j], w)) dup = 1;
    if (dup) continue;
    if (nseen < 16) seen[nseen++] = w;
    char prop[8] = "C02";
    const char* what = w;
    if (w[0] == 'C' && strlen(w) > 4 && w[3] == ' ') {
      memcpy(prop, w, 3);
      prop[3] = 0;
      what = w + 4;
    }
    char key[96];
    snprintf(key, sizeof(key), "stranded:%s", what);
    int cnt = 0;
    for (j = 0; j < n; ++j) {
      const char* w2 = atomic_load(&fb_slots[j].where);
      if (w2 && !strcmp(w2, w)) ++cnt;
    }
    vp_violation(prop, key,
                 "runtime logically quiescent (all kernel threads idle, no pending wake-up, run queues empty, no sleeper) while %d "
                 "fiber(s) are still blocked in %s although the scenario entitles them to return (first: harness fiber %d)",
                 cnt, what, i);
    ++reported;
  }
  (void)reported;
}

static fb_root_fn g_root;
static void* root_tramp(void* a) {
  void* r = g_root(a);
  return r;
}

int fb_main(int argc, char** argv, fb_root_fn root) {
  vp_init(argc, argv);
  if (vp_cfg.mode == VP_MODE_NOHOOK) vp_cfg.mode = VP_MODE_MONITOR;  // runtime harnesses always monitor
  vp_ghost_enable();
  vp_hook_install();
  if (fiber_manager_init((size_t)vp_cfg.threads) != FIBER_SUCCESS) {
    fprintf(stderr, "fiber_manager_init failed\n");
    return 2;
  }
  vp_watchdog_start(1, fb_stranded_cb);
  g_root = root;
  fiber_t* r = fiber_create(FB_STACK * 2, root_tramp, NULL);
  fiber_join(r, NULL);
  vp_mark_done();
  vp_finish();
}

typedef struct {
  void* (*fn)(void*);
  fb_slot_t* slot;
} tramp_t;

static void* slot_tramp(void* a) {
  fb_slot_t* s = (fb_slot_t*)a;
  void* (*fn)(void*) = (void* (*)(void*))s->arg;
  void* r = fn(s);
  atomic_store(&s->finished, 1);
  return r;
}

fb_slot_t* fb_spawn(void* (*fn)(void*), void* arg) {
  fb_slot_t* s = fb_slot_new();
  s->arg = (void*)fn;
  s->c = (long)(intptr_t)arg;
  s->fiber = fiber_create(FB_STACK, slot_tramp, s);
  if (!s->fiber) {
    fprintf(stderr, "fiber_create failed\n");
    _exit(2);
  }
  return s;
}

void fb_slot_release(fb_slot_t* s) {
  atomic_store(&s->where, (const char*)0);
  atomic_store(&s->finished, 1);
  atomic_store(&fb_used[s->id], 3);
}

void fb_join_all(fb_slot_t** s, int n) {
  int i;
  for (i = 0; i < n; ++i) fiber_join(s[i]->fiber, NULL);
}

// A legitimate history that leaves traces in the calling fiber: its blocking read is ended by another fiber closing the
// descriptor (the runtime reports that through per-fiber scratch state). Whatever is left behind must not influence the fiber's
// next blocking operation, whichever primitive that is.
static void* fb_closer_fn(void* a) {
  const int fd = (int)(intptr_t)a;
  int i;
  for (i = 0; i < 20; ++i) fiber_yield();
  close(fd);
  return NULL;
}
void fb_interrupted_read(fb_slot_t* s) {
  int sv[2];
  if (socketpair(AF_UNIX, SOCK_STREAM, 0, sv)) return;
  fiber_t* c = fiber_create(FB_STACK / 2, fb_closer_fn, (void*)(intptr_t)sv[0]);
  char b[4];
  ssize_t r = 0;
  FB_BLOCKING(s, "C08 read (ended by close in another fiber)", r = read(sv[0], b, sizeof(b)));
  (void)r;
  if (c) fiber_join(c, NULL);
  close(sv[1]);
  vp_count("fiber_history_read_interrupted_by_close", 1);
}
