// Online ghost monitor of the fiber runtime (DESIGN.md §3.4, §3.6).
// Harness-owned shadow records keyed by fiber address, updated inside the hook, i.e. at the same program
// point and on the same kernel thread as the library state they shadow.
#define _GNU_SOURCE
#include <pthread.h>
#include <stdarg.h>
#include <unistd.h>

#include "fiber_manager.h"
#include "vp_rt.h"

#define GBITS 16
#define GSIZE (1u << GBITS)
static vp_gfiber_t g_tab[GSIZE];

static _Atomic uint64_t g_epoch;
static _Atomic long g_pending_total, g_sleepers, g_fdwaiters, g_live;
static _Atomic uint64_t g_ticks;
static _Atomic uint64_t g_tick0_ns, g_tick0_count;
static const char* g_exec_prop = "C01";
static const char* g_queue_prop = "C02";

typedef struct {
  _Atomic uint64_t seen_epoch;
  _Atomic long idle_iters;
  _Atomic int is_mgr;
  _Atomic int stealing;  // between WSD_STEAL_PRE_CAS and this thread's next event: an entry may have left a queue unannounced
  char pad[36];
} thr_t;
static thr_t g_thr[VP_MAX_THREADS];

#define SW_RING 2048
typedef struct {
  _Atomic uintptr_t sched;
  _Atomic uint64_t sw;
  char pad[48];
  const void* ring[SW_RING];  // last fibers switched to by this scheduler (only written by its own thread)
} sched_t;
static sched_t g_sched[VP_MAX_THREADS];
static _Atomic long g_max_bypass;
static _Atomic long g_max_excess = -1000000;  // max of (bypass - per_live * live_peak) while a limit is armed
static _Atomic long g_bypass_limit;  // 0 = no online limit
static _Atomic long g_bypass_slack_per_live;
static _Atomic long g_live_peak;  // most fibers alive at once since the limit was set
static _Atomic long g_arm_gen;    // incremented whenever the limit is (re)armed: waits that began under an earlier regime are not judged

static vp_counter_t *c_switch, *c_migr, *c_steal, *c_skip, *c_sched, *c_create, *c_destroy, *c_direct, *c_early_wake,
    *c_sleep, *c_fdwait, *c_idle, *c_recreate;

void vp_ghost_set_props(const char* exec_prop, const char* queue_prop) {
  if (exec_prop) g_exec_prop = exec_prop;
  if (queue_prop) g_queue_prop = queue_prop;
}

static inline uint32_t ghash(const void* p) {
  return (uint32_t)((((uintptr_t)p >> 4) * 0x9E3779B97F4A7C15ULL) >> (64 - GBITS));
}

static vp_gfiber_t* gfind(const void* f, int create) {
  uint32_t i = ghash(f);
  uint32_t n;
  for (n = 0; n < GSIZE; ++n) {
    vp_gfiber_t* g = &g_tab[i];
    uintptr_t k = atomic_load_explicit(&g->key, memory_order_acquire);
    if (k == (uintptr_t)f) return g;
    if (k == 0) {
      if (!create) return NULL;
      uintptr_t exp = 0;
      if (atomic_compare_exchange_strong(&g->key, &exp, (uintptr_t)f)) {
        atomic_store(&g->running_on, -2);  // unknown origin: adopt on first sight
        return g;
      }
      if (exp == (uintptr_t)f) return g;
    }
    i = (i + 1) & (GSIZE - 1);
  }
  fprintf(stderr, "ghost table full\n");
  _exit(2);
}

vp_gfiber_t* vp_ghost_lookup(const void* fiber) { return gfind(fiber, 0); }

vp_gfiber_t* vp_ghost_self(void) {
  fiber_manager_t* m = fiber_manager_get();
  if (!m) return NULL;
  return gfind(m->current_fiber, 1);
}

uint64_t vp_self_switches(void) {
  vp_gfiber_t* g = vp_ghost_self();
  return g ? atomic_load(&g->switches_out) : 0;
}

static int sched_idx(const void* s) {
  int i;
  for (i = 0; i < VP_MAX_THREADS; ++i) {
    uintptr_t k = atomic_load(&g_sched[i].sched);
    if (k == (uintptr_t)s) return i;
    if (k == 0) {
      uintptr_t exp = 0;
      if (atomic_compare_exchange_strong(&g_sched[i].sched, &exp, (uintptr_t)s)) return i;
      if (exp == (uintptr_t)s) return i;
    }
  }
  return VP_MAX_THREADS - 1;
}

static void gviol(const char* prop, const char* key, const char* fmt, ...) __attribute__((format(printf, 3, 4)));
static void gviol(const char* prop, const char* key, const char* fmt, ...) {
  char buf[512];
  va_list ap;
  va_start(ap, fmt);
  vsnprintf(buf, sizeof(buf), fmt, ap);
  va_end(ap);
  vp_violation(prop, key, "%s", buf);
  // a broken runtime invariant usually cascades into memory corruption: stop here with the witness
  vp_ghost_dump(stderr, 30);
  vp_finish();
}

static void ghost_obs(int point, const void* a, const void* b, int me) {
  if (point == FV_WSD_STEAL_PRE_CAS) atomic_store(&g_thr[me].stealing, 1);
  else if (point != FV_CPU_RELAX) atomic_store(&g_thr[me].stealing, 0);
  switch (point) {
    case FV_SWITCH_PRE: {
      vp_gfiber_t* go = gfind(a, 1);
      vp_gfiber_t* gn = gfind(b, 1);
      fiber_manager_t* const mgr = fiber_manager_get();
      atomic_store(&g_thr[me].is_mgr, 1);
      int ro = atomic_load(&go->running_on);
      if (ro == -2) {
        atomic_store(&go->running_on, me);
      } else if (ro != me) {
        gviol(g_exec_prop, "ghost:old-not-running-here",
              "thread %d switches away from fiber %p which the ghost says is running on %d", me, a, ro);
      }
      atomic_fetch_add(&go->switches_out, 1);
      if (atomic_load(&gn->destroyed)) {
        gviol(g_exec_prop, "ghost:switch-to-destroyed", "thread %d switches to destroyed fiber %p", me, b);
      }
      int exp = -1;
      if (!atomic_compare_exchange_strong(&gn->running_on, &exp, me)) {
        if (exp == -2) {
          atomic_store(&gn->running_on, me);
        } else if (a == b) {
          gviol(g_exec_prop, "ghost:switch-to-self", "thread %d switches fiber %p to itself", me, b);
        } else {
          gviol(g_exec_prop, "ghost:resumed-while-running",
                "thread %d resumes fiber %p while it is still executing on thread %d (its suspension has not completed)",
                me, b, exp);
        }
      }
      const int direct = mgr && (b == (const void*)mgr->maintenance_fiber);
      if (direct) {
        vp_add(c_direct, 1);
        if (atomic_load(&gn->pending) != 0) {
          gviol(g_queue_prop, "ghost:maintenance-fiber-queued",
                "maintenance fiber %p of thread %d has %d queued wake-up(s)", b, me, atomic_load(&gn->pending));
        }
      } else {
        const int p = atomic_fetch_sub(&gn->pending, 1);
        atomic_fetch_sub(&g_pending_total, 1);
        if (p <= 0) {
          gviol(g_queue_prop, "ghost:run-without-wakeup",
                "thread %d runs fiber %p with no pending wake-up (pending=%d): entry taken twice or never queued", me,
                b, p);
        }
      }
      if (mgr) {
        const int si = sched_idx(mgr->scheduler);
        const uint64_t sw = atomic_fetch_add(&g_sched[si].sw, 1) + 1;
        g_sched[si].ring[(sw - 1) % SW_RING] = b;
        if (!direct && atomic_load(&gn->queued_sched) == (uintptr_t)mgr->scheduler && atomic_load(&gn->mark_gen) == atomic_load(&g_arm_gen)) {
          const long bypass = (long)(sw - 1 - atomic_load(&gn->queued_mark));
          long cur = atomic_load(&g_max_bypass);
          while (bypass > cur && !atomic_compare_exchange_weak(&g_max_bypass, &cur, bypass)) {
          }
          const long lim = atomic_load(&g_bypass_limit);
          if (lim) {
            const long ex = bypass - atomic_load(&g_bypass_slack_per_live) * atomic_load(&g_live_peak);
            if (ex > vp_param("bypass_debug", 1000000) && bypass < SW_RING) {
              // diagnostics: who ran on this scheduler while the fiber waited
              long k, distinct = 0, maxrep = 0, self = 0;
              const void* seen[SW_RING];
              long rep[SW_RING];
              for (k = 1; k <= bypass; ++k) {
                const void* f = g_sched[si].ring[(sw - 1 - (uint64_t)k) % SW_RING];
                long q;
                for (q = 0; q < distinct; ++q)
                  if (seen[q] == f) break;
                if (q == distinct) {
                  seen[distinct] = f;
                  rep[distinct++] = 0;
                }
                if (++rep[q] > maxrep) maxrep = rep[q];
                if (f == b) ++self;
              }
              fprintf(stderr, "[bypass-debug] fiber %p on sched %d: bypass %ld, live peak %ld, %ld distinct fibers ran, most often %ld times, itself %ld times\n", b, si, bypass,
                      atomic_load(&g_live_peak), distinct, maxrep, self);
              long nd = 0, nf = 0, nq = 0, nthr = 0;
              for (k = 0; k < distinct; ++k) {
                vp_gfiber_t* gg = gfind(seen[k], 0);
                if (!gg) continue;
                if (atomic_load(&gg->destroyed)) ++nd;
                if (atomic_load(&gg->finishing)) ++nf;
                if (atomic_load(&gg->pending) > 0) ++nq;
                if (atomic_load(&gg->is_thread)) ++nthr;
              }
              fprintf(stderr, "[bypass-debug]   of those: %ld destroyed by now, %ld finishing, %ld queued now, %ld thread fibers; live now %ld; waited fiber finishing=%d gen=%d switches_in=%llu\n", nd, nf, nq, nthr,
                      atomic_load(&g_live), atomic_load(&gn->finishing), (int)atomic_load(&gn->gen), (unsigned long long)atomic_load(&gn->switches_in));
              for (k = 0; k < distinct && k < 400; ++k)
                if (rep[k] > 2) fprintf(stderr, "[bypass-debug]   %p ran %ld times\n", seen[k], rep[k]);
            }
            long ce = atomic_load(&g_max_excess);
            while (ex > ce && !atomic_compare_exchange_weak(&g_max_excess, &ce, ex)) {
            }
          }
          if (lim && bypass > lim + atomic_load(&g_bypass_slack_per_live) * atomic_load(&g_live_peak)) {
            gviol("C10", "yield:ready-fiber-bypassed",
                  "fiber %p sat ready in the run queues of thread %d while that thread switched to other fibers %ld times (limit %ld + %ld x %ld fibers alive at most)",
                  b, me, bypass, lim, atomic_load(&g_bypass_slack_per_live), atomic_load(&g_live_peak));
          }
        }
      }
      atomic_fetch_add(&gn->switches_in, 1);
      const int lt = atomic_exchange(&gn->last_thread, me + 1);
      if (lt && lt != me + 1) {
        atomic_fetch_add(&gn->migrations, 1);
        vp_add(c_migr, 1);
      }
      vp_add(c_switch, 1);
      atomic_fetch_add(&g_epoch, 1);
      break;
    }
    case FV_SWITCH_POST: {
      vp_gfiber_t* go = gfind(a, 1);
      const int ro = atomic_load(&go->running_on);
      if (ro == -2) {
        // first maintenance of a thread whose own fiber was never seen switching: nothing to retire
      } else if (ro != me) {
        gviol(g_exec_prop, "ghost:post-not-running-here",
              "thread %d completes the suspension of fiber %p which the ghost says runs on %d", me, a, ro);
      }
      if (ro != -2) atomic_store(&go->running_on, -1);
      break;
    }
    case FV_SCHEDULE: {
      vp_gfiber_t* g = gfind(b, 1);
      {
        // run queues are single-owner deques: only the kernel thread that owns a scheduler may push onto it
        fiber_manager_t* const mgr = fiber_manager_get();
        if (mgr && (const void*)mgr->scheduler != a)
          gviol(g_queue_prop, "ghost:push-by-non-owner",
                "thread %d (scheduler %p) makes fiber %p runnable on scheduler %p, a run queue owned by another kernel thread (stale manager after migration?)",
                me, (void*)mgr->scheduler, b, a);
      }
      if (atomic_load(&g->destroyed)) {
        gviol(g_exec_prop, "ghost:schedule-destroyed", "thread %d schedules destroyed fiber %p", me, b);
      }
      const int p = atomic_fetch_add(&g->pending, 1);
      atomic_fetch_add(&g_pending_total, 1);
      if (p != 0) {
        gviol(g_queue_prop, "ghost:queued-twice", "fiber %p is made runnable while it already has %d queue entr%s", b, p,
              p == 1 ? "y" : "ies");
      }
      if (atomic_load(&g->running_on) >= 0) vp_add(c_early_wake, 1);  // woken before its switch completed
      atomic_fetch_add(&g->wakeups, 1);
      if (atomic_exchange(&g->sleeping, 0)) {
        atomic_fetch_sub(&g_sleepers, 1);
        atomic_fetch_add(&g->sleep_wakes, 1);
      }
      if (atomic_exchange(&g->fdwait, 0)) atomic_fetch_sub(&g_fdwaiters, 1);
      const int si = sched_idx(a);
      atomic_store(&g->queued_sched, (uintptr_t)a);
      atomic_store(&g->queued_mark, atomic_load(&g_sched[si].sw));
      atomic_store(&g->mark_gen, atomic_load(&g_arm_gen));
      vp_add(c_sched, 1);
      atomic_fetch_add(&g_epoch, 1);
      break;
    }
    case FV_STEAL: {
      vp_gfiber_t* g = gfind(b, 1);
      const int si = sched_idx(a);
      atomic_store(&g->queued_sched, (uintptr_t)a);
      atomic_store(&g->queued_mark, atomic_load(&g_sched[si].sw));
      atomic_store(&g->mark_gen, atomic_load(&g_arm_gen));
      vp_add(c_steal, 1);
      atomic_fetch_add(&g_epoch, 1);
      break;
    }
    case FV_SAVING_SKIP: {
      // popped while its previous suspension is still being completed on another thread: it could not have been run, and the
      // scheduler puts it behind the batch that is being collected. Its time as a *ready* fiber in this queue starts now.
      vp_gfiber_t* g = gfind(b, 1);
      const int si = sched_idx(a);
      atomic_fetch_add(&g->skips, 1);
      atomic_store(&g->queued_sched, (uintptr_t)a);
      atomic_store(&g->queued_mark, atomic_load(&g_sched[si].sw));
      atomic_store(&g->mark_gen, atomic_load(&g_arm_gen));
      vp_add(c_skip, 1);
      break;
    }
    case FV_IDLE: {
      atomic_store(&g_thr[me].is_mgr, 1);
      const uint64_t e = atomic_load(&g_epoch);
      if (atomic_load(&g_thr[me].seen_epoch) != e) {
        atomic_store(&g_thr[me].seen_epoch, e);
        atomic_store(&g_thr[me].idle_iters, 0);
      } else {
        atomic_fetch_add(&g_thr[me].idle_iters, 1);
      }
      vp_add(c_idle, 1);
      break;
    }
    case FV_FIBER_CREATE: {
      vp_gfiber_t* g = gfind(a, 1);
      if (atomic_load(&g->gen) && !atomic_load(&g->destroyed)) vp_add(c_recreate, 1);
      const int is_thread = b != NULL;
      atomic_store(&g->running_on, is_thread ? -2 : -1);
      atomic_store(&g->pending, 0);
      atomic_store(&g->destroyed, 0);
      atomic_store(&g->is_thread, is_thread);
      atomic_store(&g->sleeping, 0);
      atomic_store(&g->fdwait, 0);
      atomic_store(&g->finishing, 0);
      atomic_store(&g->switches_out, 0);
      atomic_store(&g->switches_in, 0);
      atomic_store(&g->wakeups, 0);
      atomic_store(&g->queued_sched, 0);
      atomic_store(&g->last_thread, 0);
      atomic_store(&g->migrations, 0);
      atomic_fetch_add(&g->gen, 1);
      {
        const long lv = atomic_fetch_add(&g_live, 1) + 1;
        long pk = atomic_load(&g_live_peak);
        while (lv > pk && !atomic_compare_exchange_weak(&g_live_peak, &pk, lv)) {
        }
      }
      vp_add(c_create, 1);
      break;
    }
    case FV_FIBER_DESTROY: {
      vp_gfiber_t* g = gfind(a, 0);
      if (!g) break;
      if (atomic_load(&g->destroyed)) {
        gviol(g_exec_prop, "ghost:double-destroy", "fiber %p reclaimed twice", a);
      }
      const int ro = atomic_load(&g->running_on);
      if (ro >= 0) {
        gviol(g_exec_prop, "ghost:destroy-while-running", "fiber %p reclaimed by thread %d while it executes on thread %d",
              a, me, ro);
      }
      if (atomic_load(&g->pending) > 0) {
        gviol(g_exec_prop, "ghost:destroy-while-queued", "fiber %p reclaimed while it still has a queue entry", a);
      }
      if (!atomic_load(&g->is_thread) && !atomic_load(&g->finishing)) {
        gviol(g_exec_prop, "ghost:destroy-before-finish", "fiber %p reclaimed although its function has not returned", a);
      }
      atomic_store(&g->destroyed, 1);
      atomic_fetch_sub(&g_live, 1);
      vp_add(c_destroy, 1);
      break;
    }
    case FV_FIBER_FINISHING: {
      vp_gfiber_t* g = gfind(a, 1);
      atomic_store(&g->finishing, 1);
      break;
    }
    case FV_SLEEP_REGISTERED: {
      vp_gfiber_t* g = gfind(a, 1);
      atomic_store(&g->sleep_wake_tick, *(const uint64_t*)b);
      atomic_fetch_add(&g->sleep_regs, 1);
      if (!atomic_exchange(&g->sleeping, 1)) atomic_fetch_add(&g_sleepers, 1);
      vp_add(c_sleep, 1);
      break;
    }
    case FV_FD_WAIT_REGISTERED: {
      vp_gfiber_t* g = gfind(b, 1);
      if (!atomic_exchange(&g->fdwait, 1)) atomic_fetch_add(&g_fdwaiters, 1);
      vp_add(c_fdwait, 1);
      break;
    }
    case FV_TIMER_TICKS:
      atomic_store(&g_ticks, *(const uint64_t*)a);
      if (!atomic_load(&g_tick0_ns)) {
        // calibration for diagnostics only: the tick base as a function of the monotonic clock
        atomic_store(&g_tick0_count, *(const uint64_t*)a);
        atomic_store(&g_tick0_ns, vp_now_ns());
      }
      break;
    default:
      break;
  }
}

void vp_ghost_enable(void) {
  c_switch = vp_counter("switches");
  c_migr = vp_counter("migrations");
  c_steal = vp_counter("steals");
  c_skip = vp_counter("saving_skips");
  c_sched = vp_counter("schedules");
  c_create = vp_counter("fibers_created");
  c_destroy = vp_counter("fibers_destroyed");
  c_direct = vp_counter("direct_switches_to_maintenance");
  c_early_wake = vp_counter("wakeups_before_switch_completed");
  c_sleep = vp_counter("sleeps_registered");
  c_fdwait = vp_counter("fd_waits_registered");
  c_idle = vp_counter("idle_iterations");
  c_recreate = vp_counter("ghost_recreate_without_destroy");
  vp_add_observer(ghost_obs);
}

long vp_ghost_pending_total(void) { return atomic_load(&g_pending_total); }
long vp_ghost_sleepers(void) { return atomic_load(&g_sleepers); }
long vp_ghost_fdwaiters(void) { return atomic_load(&g_fdwaiters); }
long vp_ghost_live_fibers(void) { return atomic_load(&g_live); }
uint64_t vp_ghost_ticks(void) { return atomic_load(&g_ticks); }
uint64_t vp_ghost_clock_ticks(uint64_t at_ns) {
  const uint64_t t0 = atomic_load(&g_tick0_ns);
  return t0 && at_ns > t0 ? atomic_load(&g_tick0_count) + (at_ns - t0) / 5000000ULL : 0;
}
long vp_ghost_max_bypass(void) { return atomic_load(&g_max_bypass); }
void vp_ghost_reset_bypass(void) { atomic_store(&g_max_bypass, 0); }
void vp_ghost_set_bypass_limit(long base, long per_live_fiber) {
  atomic_store(&g_bypass_slack_per_live, per_live_fiber);
  atomic_fetch_add(&g_arm_gen, 1);
  atomic_store(&g_live_peak, atomic_load(&g_live));
  atomic_store(&g_bypass_limit, base);
}

// A ready fiber that is never run again cannot be judged at its switch-in. Looked at from the watchdog thread: a fiber that has had
// the same queue entry (same scheduler, same mark, same arming generation) on three looks >= 100 ms apart while that scheduler
// performed millions of switches to other fibers - far beyond the bound - is being starved.
void vp_ghost_check_starved(void) {
  static const void* cand_key;
  static uint64_t cand_mark;
  static int cand_looks;
  const long lim = atomic_load(&g_bypass_limit);
  if (!lim) {
    cand_key = NULL;
    return;
  }
  const long bound = lim + atomic_load(&g_bypass_slack_per_live) * atomic_load(&g_live_peak);
  const long gen = atomic_load(&g_arm_gen);
  uint32_t i;
  const void* found = NULL;
  uint64_t found_mark = 0, found_wait = 0;
  int found_si = 0;
  for (i = 0; i < GSIZE; ++i) {
    vp_gfiber_t* g = &g_tab[i];
    const uintptr_t k = atomic_load_explicit(&g->key, memory_order_acquire);
    if (!k || atomic_load(&g->destroyed) || atomic_load(&g->pending) <= 0 || atomic_load(&g->mark_gen) != gen) continue;
    const uintptr_t qs = atomic_load(&g->queued_sched);
    if (!qs) continue;
    const int si = sched_idx((const void*)qs);
    const uint64_t mark = atomic_load(&g->queued_mark), sw = atomic_load(&g_sched[si].sw);
    if (sw > mark && (long)(sw - mark) > 2000000 + 100 * bound) {
      if (cand_key == (const void*)k && cand_mark == mark) {
        found = (const void*)k;
        found_mark = mark;
        found_wait = sw - mark;
        found_si = si;
        break;
      }
      if (!found) {
        found = (const void*)k;
        found_mark = mark;
        found_wait = sw - mark;
        found_si = si;
      }
    }
  }
  if (!found) {
    cand_key = NULL;
    cand_looks = 0;
    return;
  }
  if (cand_key == found && cand_mark == found_mark) {
    if (++cand_looks >= 3 && atomic_load(&g_arm_gen) == gen) {
      gviol("C10", "yield:ready-fiber-never-run",
            "fiber %p has been sitting ready in the run queues of scheduler %d while that scheduler switched to other fibers %llu times (bound %ld): it is being starved",
            found, found_si, (unsigned long long)found_wait, bound);
      cand_key = NULL;
      cand_looks = 0;
    }
  } else {
    cand_key = found;
    cand_mark = found_mark;
    cand_looks = 1;
  }
}

// every kernel thread of the runtime except the caller's has gone through several idle iterations since its last switch, no wake-up
// is pending and the run queues are empty: nothing but the calling fiber can run any more
int vp_ghost_others_idle(void) {
  const int me = vp_tid();
  int i, mgrs = 0;
  for (i = 0; i < VP_MAX_THREADS; ++i) {
    if (!atomic_load(&g_thr[i].is_mgr)) continue;
    ++mgrs;
    if (i == me) continue;
    if (atomic_load(&g_thr[i].idle_iters) < 3) return 0;
  }
  if (mgrs < vp_cfg.threads) return 0;
  if (atomic_load(&g_pending_total) != 0) return 0;
  if (fiber_verif_runqueue_total() != 0) return 0;
  return 1;
}

// For "a yield that returned at once although a fiber was ready": a fiber that is queued on the calling thread's scheduler, whose
// previous suspension has completed (it could be run right now), while no kernel thread is in the middle of a steal (a stolen entry
// is announced only after it has left the queue). Returns its identity and queue mark, or NULL.
const void* vp_ghost_ready_on_my_sched(uint64_t* mark_out) {
  fiber_manager_t* const mgr = fiber_manager_get();
  if (!mgr) return NULL;
  int t;
  for (t = 0; t < VP_MAX_THREADS; ++t)
    if (atomic_load(&g_thr[t].stealing)) return NULL;
  const uintptr_t me = (uintptr_t)mgr->scheduler;
  uint32_t i;
  for (i = 0; i < GSIZE; ++i) {
    vp_gfiber_t* g = &g_tab[i];
    const uintptr_t k = atomic_load_explicit(&g->key, memory_order_acquire);
    if (!k || atomic_load(&g->destroyed) || atomic_load(&g->queued_sched) != me) continue;
    if (atomic_load(&g->pending) <= 0 || atomic_load(&g->running_on) != -1) continue;
    // (a fiber that the scheduler keeps skipping because the library still has it in its saving state is not ready in the library's
    // sense, whatever the ghost thinks: every skip changes the mark, so two looks never agree on it)
    if (mark_out) *mark_out = atomic_load(&g->queued_mark) ^ ((uint64_t)atomic_load(&g->switches_in) << 40) ^ (atomic_load(&g->skips) << 20);
    for (t = 0; t < VP_MAX_THREADS; ++t)
      if (atomic_load(&g_thr[t].stealing)) return NULL;
    return (const void*)k;
  }
  return NULL;
}
long vp_ghost_bypass_bound(void) {
  const long lim = atomic_load(&g_bypass_limit);
  return lim ? lim + atomic_load(&g_bypass_slack_per_live) * atomic_load(&g_live_peak) : 0;
}

// A sleeper that is never resumed: every kernel thread idle (several idle iterations since the last event anywhere), nothing queued or
// pending, and a fiber still registered as sleeping although the monotonic clock puts the tick base more than 400 ticks (2 s) past
// its wake tick - on three looks >= 100 ms apart during which the library's tick count did not move either. Idle threads poll the
// timer every tick, so with nothing else to do the resumption is due within a tick or two; this is "is then resumed" failing.
void vp_ghost_check_overdue_sleepers(void) {
  static const void* cand;
  static uint64_t cand_ticks;
  static int looks;
  if (atomic_load(&g_sleepers) <= 0) {
    looks = 0;
    return;
  }
  const uint64_t e = atomic_load(&g_epoch);
  int i, mgrs = 0;
  for (i = 0; i < VP_MAX_THREADS; ++i) {
    if (!atomic_load(&g_thr[i].is_mgr)) continue;
    ++mgrs;
    if (atomic_load(&g_thr[i].seen_epoch) != e || atomic_load(&g_thr[i].idle_iters) < 8) {
      looks = 0;
      return;
    }
  }
  if (mgrs < vp_cfg.threads || atomic_load(&g_pending_total) != 0 || fiber_verif_runqueue_total() != 0) {
    looks = 0;
    return;
  }
  const uint64_t clk = vp_ghost_clock_ticks(vp_now_ns());
  if (!clk) return;
  const void* found = NULL;
  uint64_t wt = 0;
  uint32_t k;
  for (k = 0; k < GSIZE; ++k) {
    vp_gfiber_t* g = &g_tab[k];
    const uintptr_t key = atomic_load_explicit(&g->key, memory_order_acquire);
    if (!key || atomic_load(&g->destroyed) || !atomic_load(&g->sleeping)) continue;
    const uint64_t w = atomic_load(&g->sleep_wake_tick);
    if (w + 400 < clk) {
      found = (const void*)key;
      wt = w;
      if (found == cand) break;
    }
  }
  const uint64_t ticks = atomic_load(&g_ticks);
  if (!found) {
    looks = 0;
    cand = NULL;
    return;
  }
  if (found == cand && ticks == cand_ticks) {
    if (++looks >= 3) {
      gviol("C09", "sleep:never-resumed",
            "fiber %p is still asleep although its wake tick %llu lies %llu ticks behind the clock, every kernel thread is idle and nothing is queued; the library's tick count stands at %llu",
            found, (unsigned long long)wt, (unsigned long long)(clk - wt), (unsigned long long)ticks);
      looks = 0;
      cand = NULL;
    }
  } else {
    cand = found;
    cand_ticks = ticks;
    looks = 1;
  }
}

// a fiber whose function has returned (finishing) but which is still executing, with not a single event from it or anybody else
// between two looks: it spins in a wait that never switches. Returns the fiber and its switch count for the caller to compare.
const void* vp_ghost_finished_but_running(uint64_t* sw_out) {
  uint32_t k;
  for (k = 0; k < GSIZE; ++k) {
    vp_gfiber_t* g = &g_tab[k];
    const uintptr_t key = atomic_load_explicit(&g->key, memory_order_acquire);
    if (!key || atomic_load(&g->destroyed) || !atomic_load(&g->finishing) || atomic_load(&g->is_thread)) continue;
    if (atomic_load(&g->running_on) < 0) continue;
    if (sw_out) *sw_out = atomic_load(&g->switches_in) * 1000003ULL + atomic_load(&g_epoch);
    return (const void*)key;
  }
  return NULL;
}

int vp_ghost_quiescent(void) {
  const uint64_t e = atomic_load(&g_epoch);
  int i, mgrs = 0;
  for (i = 0; i < VP_MAX_THREADS; ++i) {
    if (!atomic_load(&g_thr[i].is_mgr)) continue;
    ++mgrs;
    if (atomic_load(&g_thr[i].seen_epoch) != e) return 0;
    if (atomic_load(&g_thr[i].idle_iters) < 3) return 0;
  }
  if (mgrs < vp_cfg.threads) return 0;
  if (atomic_load(&g_pending_total) != 0) return 0;
  if (atomic_load(&g_sleepers) != 0) return 0;
  if (fiber_verif_runqueue_total() != 0) return 0;
  if (atomic_load(&g_epoch) != e) return 0;
  return 1;
}

// every kernel thread has gone through several idle iterations (load balance + run-queue pop + poll) since the last
// switch/schedule event anywhere, and yet a run-queue entry or a pending wake-up exists: that entry will never run
int vp_ghost_idle_but_queued(void) {
  const uint64_t e = atomic_load(&g_epoch);
  int i, mgrs = 0;
  for (i = 0; i < VP_MAX_THREADS; ++i) {
    if (!atomic_load(&g_thr[i].is_mgr)) continue;
    ++mgrs;
    if (atomic_load(&g_thr[i].seen_epoch) != e) return 0;
    if (atomic_load(&g_thr[i].idle_iters) < 8) return 0;
  }
  if (mgrs < vp_cfg.threads) return 0;
  if (atomic_load(&g_pending_total) == 0 && fiber_verif_runqueue_total() == 0) return 0;
  if (atomic_load(&g_epoch) != e) return 0;
  return 1;
}

void vp_ghost_dump(FILE* f, int max) {
  uint32_t i;
  int n = 0;
  fprintf(f, "[ghost] epoch=%llu pending_total=%ld sleepers=%ld fdwaiters=%ld live=%ld runqueue_total=%ld ticks=%llu\n",
          (unsigned long long)atomic_load(&g_epoch), atomic_load(&g_pending_total), atomic_load(&g_sleepers),
          atomic_load(&g_fdwaiters), atomic_load(&g_live), fiber_verif_runqueue_total(),
          (unsigned long long)atomic_load(&g_ticks));
  for (i = 0; i < VP_MAX_THREADS; ++i)
    if (atomic_load(&g_thr[i].is_mgr))
      fprintf(f, "[ghost] thread %u: idle_iters=%ld seen_epoch=%llu\n", i, atomic_load(&g_thr[i].idle_iters),
              (unsigned long long)atomic_load(&g_thr[i].seen_epoch));
  for (i = 0; i < GSIZE && n < max; ++i) {
    vp_gfiber_t* g = &g_tab[i];
    if (!atomic_load(&g->key) || atomic_load(&g->destroyed)) continue;
    const fiber_t* fb = (const fiber_t*)atomic_load(&g->key);
    fprintf(f, "[ghost] fiber %p gen=%llu running_on=%d pending=%d sleeping=%d fdwait=%d finishing=%d in/out=%llu/%llu lib_state=%d%s\n",
            (void*)fb, (unsigned long long)atomic_load(&g->gen), atomic_load(&g->running_on), atomic_load(&g->pending),
            atomic_load(&g->sleeping), atomic_load(&g->fdwait), atomic_load(&g->finishing),
            (unsigned long long)atomic_load(&g->switches_in), (unsigned long long)atomic_load(&g->switches_out),
            (int)fb->state, atomic_load(&g->is_thread) ? " (thread fiber)" : "");
    ++n;
  }
}

void vp_ghost_report_counters(void) {
  if (!c_switch) return;
  vp_counter("ghost_max_bypass")->v = atomic_load(&g_max_bypass);
  if (atomic_load(&g_max_excess) > -1000000) vp_counter("ghost_max_bypass_beyond_twice_the_live_fibers")->v = atomic_load(&g_max_excess);
  vp_counter("ghost_ticks")->v = (long)atomic_load(&g_ticks);
  vp_counter("ghost_live_fibers_at_end")->v = atomic_load(&g_live);
}
