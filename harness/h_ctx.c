// C19: context switch preserves machine state; fresh contexts start aligned with their argument; stacks are private
// and released exactly once. Drives fiber_context.c directly (no fiber manager), from one or two kernel threads.
#define _GNU_SOURCE
#include <malloc.h>
#include <pthread.h>
#include <sys/mman.h>
#include <sys/syscall.h>
#include <unistd.h>

#include "fiber_context.h"
#include "vp_rt.h"

extern void ctx_shim_swap(fiber_context_t* from, fiber_context_t* to, const uint64_t plant[6], uint64_t found[8]);
extern void* ctx_entry_stub(void* arg);

#define MAXC 64
#define CANARY 48
typedef struct cx {
  void* self;          // offset 0
  uint64_t entry_rsp;  // offset 8  (written by ctx_entry_stub)
  uint64_t entry_arg;  // offset 16
  fiber_context_t ctx;
  int id, started;
  uint64_t rng;
  long resumes;
  size_t stack_sz;  // as requested from fiber_context_init
} cx_t;
static cx_t cxs[MAXC];
static fiber_context_t main_ctx[2];  // per kernel thread
static int ncx, steps_left, trial;
static __thread int my_thread;
static volatile int cur;  // index of the running context, -1 = main
static vp_counter_t *c_swaps, *c_fresh, *c_trials, *c_cross_thread, *c_created, *c_destroyed, *c_deep, *c_deep_frames, *c_regrow;

#if !defined(VP_ASAN) && defined(FIBER_STACK_MMAP)
// stack mappings are tracked by interposing mmap/munmap (every stack released exactly once, with its own length)
static struct {
  void* a;
  size_t n;
} maps[4096];
static int nmaps;
static pthread_spinlock_t maps_lock;
static int track;
void* mmap(void* addr, size_t len, int prot, int flags, int fd, off_t off) {
  void* r = (void*)syscall(SYS_mmap, addr, len, prot, flags, fd, off);
  if (track && r != MAP_FAILED) {
    pthread_spin_lock(&maps_lock);
    if (nmaps < 4096) {
      maps[nmaps].a = r;
      maps[nmaps].n = len;
      ++nmaps;
    }
    pthread_spin_unlock(&maps_lock);
  }
  return r;
}
int munmap(void* addr, size_t len) {
  if (track) {
    int i, hit = -1;
    pthread_spin_lock(&maps_lock);
    for (i = 0; i < nmaps; ++i)
      if (maps[i].a == addr) hit = i;
    if (hit >= 0) {
      if (maps[hit].n != len)
        vp_violation("C19", "ctx:stack-release-size", "stack mapping %p of %zu bytes released with length %zu", addr, maps[hit].n, len);
      maps[hit] = maps[--nmaps];
    }
    pthread_spin_unlock(&maps_lock);
    if (hit < 0) vp_violation("C19", "ctx:stack-released-twice", "munmap of %p (%zu bytes) which is not a live stack mapping (double release?)", addr, len);
  }
  return (int)syscall(SYS_munmap, addr, len);
}
#define HAVE_MAP_TRACK 1
#endif

static void pick_plant(uint64_t* rng, uint64_t p[6]) {
  int i;
  for (i = 0; i < 6; ++i) p[i] = vp_rand(rng) | 1;
}

// one checked switch from the context 'from' (running now) to 'to'
static void checked_swap(fiber_context_t* from, fiber_context_t* to, uint64_t* rng, int self_id) {
  volatile uint64_t canary[CANARY];
  uint64_t plant[6], found[8];
  int i;
  const uint64_t seed = vp_rand(rng);
  for (i = 0; i < CANARY; ++i) canary[i] = seed + (uint64_t)i * 0x9E3779B97F4A7C15ULL;
  pick_plant(rng, plant);
  memset(found, 0, sizeof(found));
  ctx_shim_swap(from, to, plant, found);
  // resumed (possibly on another kernel thread)
  vp_add(c_swaps, 1);
  static const char* const names[6] = {"rbx", "rbp", "r12", "r13", "r14", "r15"};
  for (i = 0; i < 6; ++i)
    if (found[i] != plant[i])
      vp_violation("C19", "ctx:register-clobbered", "trial %d: context %d resumed with %s=%llx, it was switched out with %llx", trial, self_id, names[i],
                   (unsigned long long)found[i], (unsigned long long)plant[i]);
  if (found[6] != found[7])
    vp_violation("C19", "ctx:stack-pointer", "trial %d: context %d resumed with rsp=%llx, it was switched out with %llx", trial, self_id, (unsigned long long)found[7],
                 (unsigned long long)found[6]);
  for (i = 0; i < CANARY; ++i)
    if (canary[i] != seed + (uint64_t)i * 0x9E3779B97F4A7C15ULL) {
      vp_violation("C19", "ctx:stack-contents", "trial %d: context %d resumed and word %d of its stack frame changed", trial, self_id, i);
      break;
    }
}

static int next_target(cx_t* c) {
  // random switch graph: mostly other contexts (fresh ones included), sometimes straight back, finally main
  if (steps_left <= 0) return -1;
  --steps_left;
  if ((vp_rand(&c->rng) & 15) == 0) return -1;
  int t = (int)(vp_rand(&c->rng) % (unsigned)ncx);
  if (t == c->id) t = (t + 1) % ncx;
  return ncx > 1 ? t : -1;
}

// deep switches: the context recurses through patterned ~1.5 KB frames, switches away at the bottom, and after it has been resumed
// first goes a few frames deeper still (a stack that grows on demand must grow from where the context really is) and then checks
// every frame on its way up. Fixed-size stacks are used up to a third, growing (split) stacks well beyond their first segment.
#define FRAME_WORDS 180
static __attribute__((noinline)) void dive(cx_t* c, int depth, int bottom, int regrow, uint64_t tag, int t) {
  volatile uint64_t frame[FRAME_WORDS];
  int i;
  for (i = 0; i < FRAME_WORDS; ++i) frame[i] = vp_mix(tag, ((uint64_t)depth << 16) | (uint64_t)i);
  vp_add(c_deep_frames, 1);
  if (depth == bottom) {
    cur = t;
    checked_swap(&c->ctx, t < 0 ? &main_ctx[my_thread] : &cxs[t].ctx, &c->rng, c->id);
    if (regrow > 0) {
      vp_add(c_regrow, 1);
      dive(c, depth + 1, depth + regrow, 0, tag ^ 0x5555, -2);
    }
  } else if (t != -2 || depth < bottom) {
    dive(c, depth + 1, bottom, regrow, tag, t);
  }
  for (i = 0; i < FRAME_WORDS; ++i)
    if (frame[i] != vp_mix(tag, ((uint64_t)depth << 16) | (uint64_t)i)) {
      vp_violation("C19", "ctx:stack-contents", "trial %d: context %d (stack size %zu): word %d of the frame at depth %d (of %d) changed while the context was switched out or grew its stack",
                   trial, c->id, c->stack_sz, i, depth, bottom);
      break;
    }
}

void* ctx_body(void* arg) {
  cx_t* c = (cx_t*)arg;
  if (c->entry_arg != (uint64_t)(uintptr_t)c || c->self != c)
    vp_violation("C19", "ctx:entry-argument", "trial %d: fresh context %d started with argument %llx instead of %p", trial, c->id, (unsigned long long)c->entry_arg, (void*)c);
  if (((c->entry_rsp + 8) & 15) != 0)
    vp_violation("C19", "ctx:entry-alignment", "trial %d: fresh context %d entered its function with rsp=%llx ((rsp+8) %% 16 != 0)", trial, c->id, (unsigned long long)c->entry_rsp);
#if defined(FIBER_STACK_MMAP) || defined(FIBER_STACK_MALLOC)
  {
    const uintptr_t lo = (uintptr_t)c->ctx.ctx_stack, hi = lo + c->ctx.ctx_stack_size, sp = (uintptr_t)c->entry_rsp;
    if (sp < lo || sp > hi)
      vp_violation("C19", "ctx:stack-not-private", "trial %d: context %d runs with rsp=%lx outside its own stack [%lx,%lx)", trial, c->id, (unsigned long)sp, (unsigned long)lo, (unsigned long)hi);
  }
#endif
  c->started = 1;
  vp_add(c_fresh, 1);
  for (;;) {
    c->resumes++;
    const int t = next_target(c);
    const int was_thread = my_thread;
    if ((vp_rand(&c->rng) & 7) == 0) {
#if defined(FIBER_STACK_SPLIT)
      size_t budget = 3 * c->stack_sz;
      if (budget > 200000) budget = 200000;
#else
      size_t budget = c->stack_sz / 3;
      if (budget > 200000) budget = 200000;
#endif
      const int maxd = (int)(budget / (FRAME_WORDS * 8 + 64));
      if (maxd >= 3) {
        const int bottom = 1 + (int)(vp_rand(&c->rng) % (unsigned)(maxd - 2));
        int regrow = (int)(vp_rand(&c->rng) % 4);
        if (bottom + regrow > maxd) regrow = 0;
        vp_add(c_deep, 1);
        dive(c, 0, bottom, regrow, vp_rand(&c->rng), t);
        if (my_thread != was_thread) vp_add(c_cross_thread, 1);
        continue;
      }
    }
    cur = t;
    checked_swap(&c->ctx, t < 0 ? &main_ctx[my_thread] : &cxs[t].ctx, &c->rng, c->id);
    if (my_thread != was_thread) vp_add(c_cross_thread, 1);
  }
  return NULL;
}

static void run_graph(int thread_idx, uint64_t* rng, int steps) {
  my_thread = thread_idx;
  steps_left = steps;
  while (steps_left > 0) {
    const int t = (int)(vp_rand(rng) % (unsigned)ncx);
    cur = t;
    checked_swap(&main_ctx[thread_idx], &cxs[t].ctx, rng, -1 - thread_idx);
  }
}

static void* second_thread(void* a) {
  uint64_t rng = *(uint64_t*)a;
  fiber_context_init_from_thread(&main_ctx[1]);
  run_graph(1, &rng, 4000);
  fiber_context_destroy(&main_ctx[1]);
  return NULL;
}

static long vm_kb(void) {
  FILE* f = fopen("/proc/self/statm", "r");
  long sz = 0;
  if (f) {
    if (fscanf(f, "%ld", &sz) != 1) sz = 0;
    fclose(f);
  }
  return sz * (sysconf(_SC_PAGESIZE) / 1024);
}

int main(int argc, char** argv) {
  vp_init(argc, argv);
  vp_cfg.mode = VP_MODE_NOHOOK;
  vp_watchdog_start(0, NULL);
  const int trials = (int)vp_param("trials", 30);
  c_swaps = vp_counter("ctx_checked_swaps");
  c_fresh = vp_counter("ctx_fresh_context_entries");
  c_trials = vp_counter("ctx_trials");
  c_cross_thread = vp_counter("ctx_resumed_on_other_thread");
  c_created = vp_counter("ctx_created");
  c_destroyed = vp_counter("ctx_destroyed");
  c_deep = vp_counter("ctx_switches_from_deep_recursion");
  c_deep_frames = vp_counter("ctx_patterned_frames_checked");
  c_regrow = vp_counter("ctx_stack_grown_further_after_resume");
#ifdef HAVE_MAP_TRACK
  pthread_spin_init(&maps_lock, 0);
#endif
  static const size_t sizes[] = {16384, 20000, 65536, 100000, 12345 * 3, 1 << 20};
  uint64_t rng = vp_mix(vp_cfg.seed, 1919);
  fiber_context_init_from_thread(&main_ctx[0]);
  long vm_after_warmup = 0;
  for (trial = 0; trial < trials; ++trial) {
    ncx = 2 + (int)(vp_rand(&rng) % (MAXC - 2));
    int i;
#ifdef HAVE_MAP_TRACK
    track = 1;
#endif
    for (i = 0; i < ncx; ++i) {
      memset(&cxs[i], 0, sizeof(cxs[i]));
      // the API does not require zeroed storage for a context: half of them start from a dirty struct
      if (vp_rand(&rng) & 1) memset(&cxs[i].ctx, 0xA5, sizeof(cxs[i].ctx));
      cxs[i].self = &cxs[i];
      cxs[i].id = i;
      cxs[i].rng = vp_mix(vp_cfg.seed, (uint64_t)trial * 1000 + (uint64_t)i);
      const size_t sz = sizes[vp_rand(&rng) % (sizeof(sizes) / sizeof(sizes[0]))];
      cxs[i].stack_sz = sz;
      if (fiber_context_init(&cxs[i].ctx, sz, ctx_entry_stub, &cxs[i]) != FIBER_SUCCESS) {
        fprintf(stderr, "fiber_context_init failed\n");
        return 2;
      }
      vp_add(c_created, 1);
    }
#if defined(FIBER_STACK_MMAP) || defined(FIBER_STACK_MALLOC)
    int j;
    for (i = 0; i < ncx; ++i)
      for (j = i + 1; j < ncx; ++j) {
        const uintptr_t a0 = (uintptr_t)cxs[i].ctx.ctx_stack, a1 = a0 + cxs[i].ctx.ctx_stack_size;
        const uintptr_t b0 = (uintptr_t)cxs[j].ctx.ctx_stack, b1 = b0 + cxs[j].ctx.ctx_stack_size;
        if (a0 < b1 && b0 < a1) vp_violation("C19", "ctx:stacks-overlap", "trial %d: stacks of contexts %d and %d overlap", trial, i, j);
      }
#endif
    run_graph(0, &rng, 3000);
    if (trial % 3 == 0) {
      // contexts created (and partly run) on this thread continue on another kernel thread
      pthread_t th;
      uint64_t r2 = vp_rand(&rng) | 1;
      pthread_create(&th, NULL, second_thread, &r2);
      pthread_join(th, NULL);
      my_thread = 0;
    }
    for (i = 0; i < ncx; ++i) {
      fiber_context_destroy(&cxs[i].ctx);
      vp_add(c_destroyed, 1);
    }
#ifdef HAVE_MAP_TRACK
    if (nmaps != 0) vp_violation("C19", "ctx:stack-leak", "trial %d: %d stack mapping(s) still live after all contexts were destroyed", trial, nmaps);
    nmaps = 0;
    track = 0;
#endif
    if (trial == 2) vm_after_warmup = vm_kb();
    vp_sig(vp_mix((uint64_t)ncx, (uint64_t)vp_get(c_fresh) * 131 + (uint64_t)vp_get(c_swaps)));
    if (trial < 2) vp_sample("context trial %d: %d contexts with mixed stack sizes, random switch graph of 3000%s checked swaps", trial, ncx, trial % 3 == 0 ? "+4000 (second kernel thread)" : "");
    vp_add(c_trials, 1);
    vp_case();
    vp_progress();
    if (vp_violation_count()) break;
  }
  // leak heuristic for strategies whose release cannot be intercepted: address space must not keep growing
  const long vm_end = vm_kb();
  vp_counter("ctx_vm_growth_kb_after_warmup")->v = vm_end - vm_after_warmup;
  if (trials > 8 && vm_after_warmup && vm_end - vm_after_warmup > 256 * 1024)
    vp_violation("C19", "ctx:stack-leak", "address space grew by %ld KB over %d create/destroy cycles after warm-up: stacks are not released", vm_end - vm_after_warmup, trials - 3);
  vp_mark_done();
  vp_finish();
}
