// C13: MPMC FIFO (optimistic queue + hazard pointers) against the queue rules of vp_hist.h.
// Nodes retired through the hazard-pointer GC callback are really freed under ASan and immediately recycled
// (shared pool) otherwise, so that ABA / use-after-reclaim become observable.
#include "ds_common.h"
#include <sys/mman.h>
#include "mpmc_fifo.h"

static _Atomic(hazard_pointer_thread_record_t*) hp_head;
static hazard_pointer_thread_record_t* recs[DS_MAX_WORKERS];
static mpmc_fifo_t fifo;

// shared recycle pool (harness side, plain spinlock)
static pthread_spinlock_t pool_lock;
static mpmc_fifo_node_t* pool[1 << 16];
static int pool_n;
static vp_counter_t *c_recycled, *c_gc, *c_push, *c_pop, *c_empty, *c_rounds;

#define POISON ((void*)(uintptr_t)0xDEADDEADDEADULL)

#ifndef VP_ASAN
// fresh nodes come from regions that lie gigabytes to terabytes apart (distant mmap hints), handed out round-robin, so that the
// hazard pointers published at any moment - which the reclamation scan sorts and searches - differ by more than 2^31 and 2^32
#define AR_REGIONS 6
#define AR_PER 8192
static mpmc_fifo_node_t* ar_base[AR_REGIONS];
static _Atomic long ar_next;
static int ar_ready;
static void arena_init(void) {
  static const uintptr_t hints[AR_REGIONS] = {0x10000000000ULL, 0x10080001000ULL, 0x20000000000ULL, 0x5f0000000000ULL, 0x100000000ULL, 0x7000000000ULL};
  int h;
  for (h = 0; h < AR_REGIONS; ++h) {
    void* m = mmap((void*)hints[h], AR_PER * sizeof(mpmc_fifo_node_t), PROT_READ | PROT_WRITE, MAP_PRIVATE | MAP_ANONYMOUS, -1, 0);
    ar_base[h] = m == MAP_FAILED ? NULL : (mpmc_fifo_node_t*)m;
  }
  ar_ready = 1;
}
static int arena_owns(const mpmc_fifo_node_t* n) {
  int h;
  for (h = 0; h < AR_REGIONS; ++h)
    if (ar_base[h] && n >= ar_base[h] && n < ar_base[h] + AR_PER) return 1;
  return 0;
}
static mpmc_fifo_node_t* arena_fresh(void) {
  const long k = atomic_fetch_add(&ar_next, 1);
  if (k >= (long)AR_REGIONS * AR_PER) return NULL;
  mpmc_fifo_node_t* b = ar_base[k % AR_REGIONS];
  return b ? &b[k / AR_REGIONS] : NULL;
}
#endif

static void node_gc(void* gc_data, hazard_node_t* h) {
  (void)gc_data;
  mpmc_fifo_node_t* n = (mpmc_fifo_node_t*)h;
  vp_add(c_gc, 1);
#ifdef VP_ASAN
  free(n);
#else
  n->value = POISON;
  n->prev = (mpmc_fifo_node_t*)POISON;
  pthread_spin_lock(&pool_lock);
  if (pool_n < (int)(sizeof(pool) / sizeof(pool[0]))) {
    pool[pool_n++] = n;
    n = NULL;
  }
  pthread_spin_unlock(&pool_lock);
  if (n && !arena_owns(n)) free(n);
#endif
}

static mpmc_fifo_node_t* node_alloc(void) {
  mpmc_fifo_node_t* n = NULL;
#ifndef VP_ASAN
  pthread_spin_lock(&pool_lock);
  if (pool_n > 0) n = pool[--pool_n];
  pthread_spin_unlock(&pool_lock);
  if (n) vp_add(c_recycled, 1);
  if (!n && ar_ready) n = arena_fresh();
#endif
  if (!n) n = (mpmc_fifo_node_t*)malloc(sizeof(*n));
  n->hazard.gc_data = NULL;
  n->hazard.gc_function = &node_gc;
  return n;
}

static int n_push, n_pop, n_mixed;
static long quota;  // pushes per pushing thread
static _Atomic long popped_total, pushers_done;
static long total_target;
static int cur_round;

static hazard_pointer_thread_record_t* my_rec(ds_worker_t* w) {
  if (!recs[w->id]) recs[w->id] = hazard_pointer_thread_record_create_and_push(&hp_head, MPMC_HAZARD_COUNT);
  return recs[w->id];
}

static void do_push(ds_worker_t* w, hazard_pointer_thread_record_t* r, uint64_t val) {
  mpmc_fifo_node_t* n = node_alloc();
  n->value = (void*)(uintptr_t)val;
  vp_op_t* o = vp_log_begin(&w->log, w->id, VP_OP_PUSH, val);
  mpmc_fifo_push(r, &fifo, n);
  vp_log_end(o, VP_RES_OK, val);
  vp_add(c_push, 1);
}

// returns 1 if a value was popped
static int do_pop(ds_worker_t* w, hazard_pointer_thread_record_t* r, int* consecutive_empty) {
  vp_op_t* o = vp_log_begin(&w->log, w->id, VP_OP_POP, 0);
  void* v = mpmc_fifo_trypop(r, &fifo);
  if (v) {
    vp_log_end(o, VP_RES_OK, (uint64_t)(uintptr_t)v);
    atomic_fetch_add(&popped_total, 1);
    vp_add(c_pop, 1);
    *consecutive_empty = 0;
    return 1;
  }
  vp_log_end(o, VP_RES_EMPTY, 0);
  vp_add(c_empty, 1);
  if (++*consecutive_empty > 2) w->log.n--;  // keep the log bounded: only the first EMPTYs of a streak are judged
  return 0;
}

static void round_fn(ds_worker_t* w) {
  hazard_pointer_thread_record_t* r = my_rec(w);
  const int role = w->id < n_push ? 0 : (w->id < n_push + n_pop ? 1 : 2);
  uint64_t seq = 0;
  int ce = 0;
  ds_start_line();
  if (role == 0) {
    while ((long)seq < quota) {
      do_push(w, r, ((uint64_t)(w->id + 1) << 40) | ++seq);
      if ((vp_rand(&w->rng) & 15) == 0) ds_tiny_delay(&w->rng, 300);
    }
    atomic_fetch_add(&pushers_done, 1);
  } else if (role == 1) {
    long idle = 0;
    while (atomic_load(&popped_total) < total_target) {
      if (do_pop(w, r, &ce)) idle = 0;
      else if (atomic_load(&pushers_done) == n_push + n_mixed && ++idle > 2000) break;
      if ((vp_rand(&w->rng) & 15) == 0) ds_tiny_delay(&w->rng, 300);
    }
  } else {
    long idle = 0;
    int done_marked = 0;
    for (;;) {
      const int can_push = (long)seq < quota;
      if (!can_push && !done_marked) {
        atomic_fetch_add(&pushers_done, 1);
        done_marked = 1;
      }
      if (can_push && (vp_rand(&w->rng) & 1)) {
        do_push(w, r, ((uint64_t)(w->id + 1) << 40) | ++seq);
      } else {
        if (atomic_load(&popped_total) >= total_target && !can_push) break;
        if (do_pop(w, r, &ce)) idle = 0;
        else if (!can_push && atomic_load(&pushers_done) == n_push + n_mixed && ++idle > 2000) break;
      }
    }
  }
}

void ds_sub_mpmc(void) {
  const long rounds = vp_param("rounds", 100);
  const long ops = vp_param("ops", 4000);
  c_recycled = vp_counter("mpmc_nodes_recycled_immediately");
  c_gc = vp_counter("mpmc_nodes_reclaimed_by_hazard_gc");
  c_push = vp_counter("mpmc_push");
  c_pop = vp_counter("mpmc_pop_ok");
  c_empty = vp_counter("mpmc_pop_empty");
  c_rounds = vp_counter("mpmc_rounds");
  pthread_spin_init(&pool_lock, 0);
#ifndef VP_ASAN
  arena_init();
#endif
  uint64_t rng = vp_mix(vp_cfg.seed, 1313);
  for (cur_round = 0; cur_round < rounds; ++cur_round) {
    const int T = ds_nworkers;
    // role split: at least one taker and one pusher
    n_mixed = (int)(vp_rand(&rng) % 3) == 0 ? (int)(vp_rand(&rng) % (unsigned)(T + 1)) : 0;
    int rest = T - n_mixed;
    n_push = rest ? 1 + (int)(vp_rand(&rng) % (unsigned)rest) : 0;
    if (rest >= 2 && n_push == rest) n_push = rest - 1;
    n_pop = rest - n_push;
    if (n_pop == 0 && n_mixed == 0) {
      if (n_push > 1) {
        n_push--;
        n_pop = 1;
      } else {
        n_mixed = 1;
        n_push = 0;
      }
    }
    const int pushing = n_push + n_mixed;
    quota = pushing ? ops / pushing : 0;
    if (quota < 1) quota = 1;
    total_target = quota * pushing;
    atomic_store(&popped_total, 0);
    atomic_store(&pushers_done, 0);
    mpmc_fifo_init(&fifo, node_alloc());
    int i;
    for (i = 0; i < T; ++i) vp_log_reset(&ds_w[i].log);
    ds_run_round(T, round_fn);
    // final single-threaded drain (main thread logs into worker 0's log with its own record)
    if (!recs[0]) recs[0] = hazard_pointer_thread_record_create_and_push(&hp_head, MPMC_HAZARD_COUNT);
    for (;;) {
      vp_op_t* o = vp_log_begin(&ds_w[0].log, 0, VP_OP_POP, 0);
      void* v = mpmc_fifo_trypop(recs[0], &fifo);
      if (!v) {
        vp_log_end(o, VP_RES_EMPTY, 0);
        break;
      }
      vp_log_end(o, VP_RES_OK, (uint64_t)(uintptr_t)v);
    }
    vp_hist_t h;
    ds_history_begin(&h, T);
    vp_report_t rep = {"C13", "mpmc_fifo"};
    char ctx[96];
    snprintf(ctx, sizeof(ctx), "round %d (%d pushers, %d poppers, %d mixed)", cur_round, n_push, n_pop, n_mixed);
    vp_val_t* vals;
    size_t nv = vp_vals_build(&h, &vals, &rep, ctx);
    vp_check_no_loss(vals, nv, &rep, ctx);
    vp_check_fifo(vals, nv, &rep, ctx, 1);
    vp_check_empty(&h, vals, nv, &rep, ctx);
    free(vals);
    ds_history_end(&h, ctx);
    mpmc_fifo_destroy(recs[0], &fifo);
    vp_add(c_rounds, 1);
    if (vp_violation_count()) break;
  }
}
