// C06: semaphore. Kind A (holder pattern: wait/trywait ... post, occupancy <= initial) and kind B (producers post,
// consumers wait). Over-admission oracle: successes <= initial + posts begun (posts read after the success is counted).
#include "fb_common.h"
#include "fiber_semaphore.h"
// under TSan the harness-side occupancy counters must not themselves create happens-before edges between owners
#ifdef VP_TSAN
#define OCC_ORDER memory_order_relaxed
#else
#define OCC_ORDER memory_order_seq_cst
#endif
static long sem_pay_a, sem_pay_b;  // plain payload, meaningful when the semaphore admits one holder at a time
__attribute__((noinline)) static void vp_payload_sem_section(int id, int trial_) {
  if (sem_pay_a != sem_pay_b) vp_violation("C06", "sem:payload-torn", "trial %d: fiber %d holds the only unit and sees payload %ld/%ld", trial_, id, sem_pay_a, sem_pay_b);
  sem_pay_a++;
  sem_pay_b++;
}

static fiber_semaphore_t sem;
static int initial, kind, iters, trial;
static _Atomic long successes, posts_begun, posts_done, inside;
static long consumer_quota, producer_quota;
static vp_counter_t *c_wait, *c_try_ok, *c_try_fail, *c_post, *c_trials;

static void admitted(fb_slot_t* s, const char* how) {
  const long succ = atomic_fetch_add_explicit(&successes, 1, OCC_ORDER) + 1;
  const long posts = atomic_load_explicit(&posts_begun, OCC_ORDER);
  if (succ > initial + posts)
    vp_violation("C06", "sem:over-admission", "trial %d: %s by fiber %d is success #%ld but initial value %d plus %ld posts begun allow only %ld",
                 trial, how, s->id, succ, initial, posts, initial + posts);
}

static int try_wait(fb_slot_t* s) {
  const uint64_t sw = vp_self_switches();
  const int ok = fiber_semaphore_trywait(&sem);
  if (vp_self_switches() != sw)
    vp_violation("C06", "sem:trywait-blocked", "trial %d: fiber %d was context-switched inside fiber_semaphore_trywait", trial, s->id);
  if (ok == FIBER_SUCCESS) {
    admitted(s, "trywait");
    vp_add(c_try_ok, 1);
    return 1;
  }
  vp_add(c_try_fail, 1);
  return 0;
}

static void do_post(fb_slot_t* s) {
  atomic_fetch_add_explicit(&posts_begun, 1, OCC_ORDER);
  FB_BLOCKING(s, "C06 fiber_semaphore_post", fiber_semaphore_post(&sem));
  atomic_fetch_add_explicit(&posts_done, 1, OCC_ORDER);
  vp_add(c_post, 1);
}

static void* holder_fiber(void* a) {
  fb_slot_t* s = (fb_slot_t*)a;
  int i;
  for (i = 0; i < iters; ++i) {
    int got = 0;
    if (vp_rand(&s->rng) % 3 == 0) got = try_wait(s);
    if (!got) {
      FB_BLOCKING(s, "C06 fiber_semaphore_wait", fiber_semaphore_wait(&sem));
      admitted(s, "wait");
      vp_add(c_wait, 1);
    }
    const long in = atomic_fetch_add_explicit(&inside, 1, OCC_ORDER) + 1;
    if (in > initial)
      vp_violation("C06", "sem:too-many-holders", "trial %d: %ld fibers hold a unit of a semaphore initialised to %d", trial, in, initial);
    if (initial == 1) vp_payload_sem_section(s->id, trial);
    if ((vp_rand(&s->rng) & 7) == 0) fiber_yield();
    else fb_spin(&s->rng, 60);
    atomic_fetch_sub_explicit(&inside, 1, OCC_ORDER);
    do_post(s);
    if ((vp_rand(&s->rng) & 7) == 0) fiber_yield();
  }
  return NULL;
}

// hammer: tight trywait/post loops on a small semaphore (windows inside trywait/post that have no hook point)
static _Atomic int hammer_stop;
static void* hammer_try_fiber(void* a) {
  fb_slot_t* s = (fb_slot_t*)a;
  long n = 0, i;
  for (i = 0; i < (long)iters * 200 && !atomic_load(&hammer_stop); ++i) {
    if (try_wait(s)) {
      const long in = atomic_fetch_add_explicit(&inside, 1, OCC_ORDER) + 1;
      if (in > initial) vp_violation("C06", "sem:too-many-holders", "trial %d (hammer): %ld fibers hold a unit of a semaphore initialised to %d", trial, in, initial);
      atomic_fetch_sub_explicit(&inside, 1, OCC_ORDER);
      do_post(s);
    }
    if ((++n & 31) == 0) fiber_yield();
  }
  return NULL;
}

static void* consumer_fiber(void* a) {
  fb_slot_t* s = (fb_slot_t*)a;
  long i;
  for (i = 0; i < consumer_quota; ++i) {
    int got = 0;
    if (vp_rand(&s->rng) % 4 == 0) got = try_wait(s);
    if (!got) {
      FB_BLOCKING(s, "C06 fiber_semaphore_wait", fiber_semaphore_wait(&sem));
      admitted(s, "wait");
      vp_add(c_wait, 1);
    }
  }
  return NULL;
}
static void* producer_fiber(void* a) {
  fb_slot_t* s = (fb_slot_t*)a;
  long i;
  for (i = 0; i < producer_quota; ++i) {
    do_post(s);
    if ((vp_rand(&s->rng) & 3) == 0) fiber_yield();
  }
  return NULL;
}

void* sy_sem_root(void* x) {
  (void)x;
  const int trials = (int)vp_param("trials", 30);
  const int maxf = (int)vp_param("maxf", 48);
  iters = (int)vp_param("iters", 50);
  c_wait = vp_counter("sem_wait_returned");
  c_try_ok = vp_counter("sem_trywait_ok");
  c_try_fail = vp_counter("sem_trywait_fail");
  c_post = vp_counter("sem_posts");
  c_trials = vp_counter("sem_trials");
  static const int inits[] = {0, 1, 2, 7};
  uint64_t rng = vp_mix(vp_cfg.seed, 606);
  for (trial = 0; trial < trials; ++trial) {
    kind = (int)(vp_rand(&rng) & 1);
    initial = inits[vp_rand(&rng) % 4];
    if (kind == 0 && initial == 0) initial = 1;
    if (vp_param("mutexlike", 0) && trial % 4 != 3) {  // one unit, holder pattern: the plain payload is meaningful
      kind = 0;
      initial = 1;
    }
    atomic_store(&successes, 0);
    atomic_store(&posts_begun, 0);
    atomic_store(&posts_done, 0);
    atomic_store(&inside, 0);
    fiber_semaphore_init(&sem, initial);
    fiber_manager_stats_t st0, st1;
    fiber_manager_all_stats(&st0);
    fb_slots_reset();
    fb_slot_t* sl[256];
    int n = 0, i;
    long expect_value;
    if (trial % 4 == 3) {
      kind = 2;
      initial = 1 + (int)(vp_rand(&rng) % 2);
      fiber_semaphore_destroy(&sem);
      fiber_semaphore_init(&sem, initial);
      const int T = 3 + (int)(vp_rand(&rng) % 6);
      atomic_store(&hammer_stop, 0);
      for (i = 0; i < T; ++i) sl[n++] = fb_spawn(hammer_try_fiber, NULL);
      for (i = 0; i < 2; ++i) sl[n++] = fb_spawn(holder_fiber, NULL);
      expect_value = initial;
      vp_count("sem_hammer_trials", 1);
    } else if (kind == 0) {
      const int F = 2 + (int)(vp_rand(&rng) % (unsigned)(maxf - 1));
      for (i = 0; i < F; ++i) sl[n++] = fb_spawn(holder_fiber, NULL);
      expect_value = initial;
    } else {
      const int P = 1 + (int)(vp_rand(&rng) % 8), C = 1 + (int)(vp_rand(&rng) % 8);
      // consumers take exactly what producers post (plus nothing of the initial value)
      consumer_quota = iters * P;
      producer_quota = iters * C;
      for (i = 0; i < C; ++i) sl[n++] = fb_spawn(consumer_fiber, NULL);
      for (i = 0; i < P; ++i) sl[n++] = fb_spawn(producer_fiber, NULL);
      expect_value = initial;
    }
    fb_join_all(sl, n);
    fiber_manager_all_stats(&st1);
    const long v = fiber_semaphore_getvalue(&sem);
    const long model = initial + atomic_load(&posts_done) - atomic_load(&successes);
    if (v != model || v != expect_value)
      vp_violation("C06", "sem:value-mismatch", "trial %d (kind %d): after all activity value=%ld but initial %d + %ld posts - %ld successful waits = %ld",
                   trial, kind, v, initial, atomic_load(&posts_done), atomic_load(&successes), model);
    vp_count("lib_wake_mpmc_spin_count", (long)(st1.wake_mpmc_spin_count - st0.wake_mpmc_spin_count));
    vp_sig(vp_mix(((uint64_t)kind << 20) | ((uint64_t)initial << 12) | (uint64_t)n, (uint64_t)(st1.wake_mpmc_spin_count - st0.wake_mpmc_spin_count) + (uint64_t)vp_get(c_try_fail) * 3));
    if (trial < 2) vp_sample("sem trial %d: kind %s, initial %d, %d fibers, %ld successes, %ld posts", trial, kind ? "producer/consumer" : "holder", initial, n,
                             atomic_load(&successes), atomic_load(&posts_done));
    fiber_semaphore_destroy(&sem);
    vp_add(c_trials, 1);
    vp_case();
    if (vp_violation_count()) break;
  }
  return NULL;
}
