// C16: lock-free ring buffer. P pushers / C poppers on trypush/trypop (sometimes the blocking variants).
#include "ds_common.h"
#include "lockfree_ring_buffer.h"

static lockfree_ring_buffer_t* rb;
static int n_push, n_pop, cap_log;
static long quota, total_target;
static _Atomic long popped_total, pushers_done;
static int cur_round;
static _Atomic int ring_abort;  // set when a thread saw an absurd streak of failures: stop the round, judge what was recorded
#define STUCK_STREAK 30000000L
static _Atomic long ring_successes;  // any thread, any operation
// a failure only counts towards the streak while nobody at all succeeds
// (and, because a thread that owes the others a step can be descheduled for a long time on an oversubscribed machine, only after the
// process has also gone 20 s without a single success: an aborted round is merely inconclusive, so the clock costs no soundness here)
static _Atomic uint64_t ring_last_success_ns;
static inline int stuck_tick(long* streak, long* seen) {
  const long g = atomic_load_explicit(&ring_successes, memory_order_relaxed);
  if (g != *seen) {
    *seen = g;
    *streak = 0;
    atomic_store_explicit(&ring_last_success_ns, vp_now_ns(), memory_order_relaxed);
    return 0;
  }
  if (++*streak <= STUCK_STREAK) return 0;
  const uint64_t last = atomic_load_explicit(&ring_last_success_ns, memory_order_relaxed);
  if (last && vp_now_ns() - last < 20000000000ULL) {
    *streak = STUCK_STREAK - 1000000;  // look at the clock again after another million failures
    return 0;
  }
  return 1;
}
static vp_counter_t *c_push, *c_pushfail, *c_pop, *c_popfail, *c_rounds, *c_laps;

static void round_fn(ds_worker_t* w) {
  ds_start_line();
  int cf = 0;
  if (w->id < n_push) {
    uint64_t seq = 0;
    const int blocking = (vp_rand(&w->rng) & 7) == 0;
    long streak = 0, seen = 0;
    while ((long)seq < quota && !atomic_load(&ring_abort)) {
      const uint64_t val = ((uint64_t)(w->id + 1) << 40) | (seq + 1);
      vp_op_t* o = vp_log_begin(&w->log, w->id, VP_OP_PUSH, val);
      int ok = 1;
      if (blocking) {
        // same loop as lockfree_ring_buffer_push(), but able to give up when the structure is wedged
        while (!(ok = lockfree_ring_buffer_trypush(rb, (void*)(uintptr_t)val))) {
          if (rb->high - rb->low >= rb->size) cpu_relax();
          if (stuck_tick(&streak, &seen) || atomic_load(&ring_abort)) break;
        }
      } else {
        ok = lockfree_ring_buffer_trypush(rb, (void*)(uintptr_t)val);
      }
      if (!ok && (streak > STUCK_STREAK || stuck_tick(&streak, &seen))) atomic_store(&ring_abort, 1);
      if (ok) {
        streak = 0;
        atomic_fetch_add_explicit(&ring_successes, 1, memory_order_relaxed);
        vp_log_end(o, VP_RES_OK, val);
        ++seq;
        cf = 0;
        vp_add(c_push, 1);
      } else {
        vp_log_end(o, VP_RES_FAIL, val);
        vp_add(c_pushfail, 1);
        if (++cf > 2) {  // merge a streak of failures into one interval (sound: only widens what may excuse others)
          w->log.ops[w->log.n - 2].ret = o->ret;
          w->log.n--;
        }
        ds_tiny_delay(&w->rng, 50);
      }
      if ((vp_rand(&w->rng) & 15) == 0) ds_tiny_delay(&w->rng, 300);
    }
    atomic_fetch_add(&pushers_done, 1);
  } else {
    long idle = 0;
    while (atomic_load(&popped_total) < total_target && !atomic_load(&ring_abort)) {
      vp_op_t* o = vp_log_begin(&w->log, w->id, VP_OP_POP, 0);
      void* v = lockfree_ring_buffer_trypop(rb);
      if (v) {
        vp_log_end(o, VP_RES_OK, (uint64_t)(uintptr_t)v);
        atomic_fetch_add(&popped_total, 1);
        atomic_fetch_add_explicit(&ring_successes, 1, memory_order_relaxed);
        vp_add(c_pop, 1);
        cf = 0;
        idle = 0;
      } else {
        vp_log_end(o, VP_RES_EMPTY, 0);
        vp_add(c_popfail, 1);
        if (++cf > 2) {
          w->log.ops[w->log.n - 2].ret = o->ret;
          w->log.n--;
        }
        if (atomic_load(&pushers_done) == n_push && ++idle > 3000) break;
        ds_tiny_delay(&w->rng, 50);
      }
      if ((vp_rand(&w->rng) & 15) == 0) ds_tiny_delay(&w->rng, 300);
    }
  }
}

// capacities beyond what the concurrent rounds use: 2^17 and 2^20 are filled completely once (more than 65536 and 2^16*2^k items
// outstanding); the largest capacities the interface admits are only created and touched at the far end of their slot array (the
// counters start just below the capacity, so the first pushes land in the last slots and then wrap to the first)
static void big_capacity_prefix(void) {
  static const int full_k[] = {17, 20};
  unsigned q;
  for (q = 0; q < 2; ++q) {
    const int k = full_k[q];
    lockfree_ring_buffer_t* r = lockfree_ring_buffer_create((uint32_t)k);
    if (!r) continue;
    const long cap = 1L << k;
    long i;
    for (i = 0; i < cap; ++i)
      if (!lockfree_ring_buffer_trypush(r, (void*)(uintptr_t)(i + 1))) {
        vp_violation("C16", "ring:seq-push-failed", "capacity %ld: sequential trypush %ld failed although only %ld items are inside", cap, i, i);
        break;
      }
    if (i == cap && lockfree_ring_buffer_trypush(r, (void*)(uintptr_t)0x7777)) vp_violation("C16", "ring:seq-overfill", "capacity %ld: trypush succeeded on a full buffer", cap);
    for (i = 0; i < cap; ++i) {
      void* v = lockfree_ring_buffer_trypop(r);
      if ((long)(uintptr_t)v != i + 1) {
        vp_violation("C16", "ring:seq-order", "capacity %ld: sequential pop %ld returned %ld", cap, i, (long)(uintptr_t)v);
        break;
      }
    }
    lockfree_ring_buffer_destroy(r);
    vp_count("ring_big_capacity_filled", 1);
  }
#if !defined(VP_ASAN) && !defined(VP_TSAN)
  {
    // 2^29 slots = 4 GiB of address space (never touched except at both ends)
    const int k = 29;
    lockfree_ring_buffer_t* r = lockfree_ring_buffer_create((uint32_t)k);
    if (r) {
      const uint64_t cap = 1ULL << k;
      r->high = cap - 3;
      r->low = cap - 3;
      long i;
      for (i = 0; i < 8; ++i)
        if (!lockfree_ring_buffer_trypush(r, (void*)(uintptr_t)(i + 1)))
          vp_violation("C16", "ring:seq-push-failed", "capacity 2^%d: trypush %ld failed on an almost empty buffer", k, i);
      for (i = 0; i < 8; ++i) {
        void* v = lockfree_ring_buffer_trypop(r);
        if ((long)(uintptr_t)v != i + 1) vp_violation("C16", "ring:seq-order", "capacity 2^%d: pop %ld returned %ld", k, i, (long)(uintptr_t)v);
      }
      lockfree_ring_buffer_destroy(r);
      vp_count("ring_largest_capacity_touched_at_both_ends", 1);
    }
  }
#endif
}

static void sequential_prefix(int cl) {
  // deterministic single-thread facts: fill exactly to capacity, overflow attempt fails, drain in order, underflow fails
  lockfree_ring_buffer_t* r = lockfree_ring_buffer_create((uint32_t)cl);
  const long cap = 1L << cl;
  long i, lap;
  for (lap = 0; lap < 3; ++lap) {
    for (i = 0; i < cap; ++i)
      if (!lockfree_ring_buffer_trypush(r, (void*)(uintptr_t)(i + 1 + lap * cap)))
        vp_violation("C16", "ring:seq-push-failed", "capacity %ld: sequential trypush %ld failed although only %ld items are inside", cap, i, i);
    if (lockfree_ring_buffer_trypush(r, (void*)(uintptr_t)0x7777))
      vp_violation("C16", "ring:seq-overfill", "capacity %ld: trypush succeeded on a full buffer", cap);
    if ((long)lockfree_ring_buffer_size(r) != cap)
      vp_violation("C16", "ring:seq-size", "capacity %ld: size() reports %zu when full", cap, lockfree_ring_buffer_size(r));
    for (i = 0; i < cap; ++i) {
      void* v = lockfree_ring_buffer_trypop(r);
      if ((long)(uintptr_t)v != i + 1 + lap * cap)
        vp_violation("C16", "ring:seq-order", "capacity %ld: sequential pop %ld returned %ld", cap, i, (long)(uintptr_t)v);
    }
    if (lockfree_ring_buffer_trypop(r)) vp_violation("C16", "ring:seq-underflow", "capacity %ld: trypop succeeded on an empty buffer", cap);
  }
  lockfree_ring_buffer_destroy(r);
}

void ds_sub_ring(void) {
  const long rounds = vp_param("rounds", 100);
  const long ops = vp_param("ops", 4000);
  const int fixed_cap = (int)vp_param("cap_log", -1);
  c_push = vp_counter("ring_push_ok");
  c_pushfail = vp_counter("ring_push_fail");
  c_pop = vp_counter("ring_pop_ok");
  c_popfail = vp_counter("ring_pop_fail");
  c_rounds = vp_counter("ring_rounds");
  c_laps = vp_counter("ring_laps_total");
  uint64_t rng = vp_mix(vp_cfg.seed, 1616);
  int cl;
  for (cl = 1; cl <= 6; ++cl) sequential_prefix(cl);
  if (vp_cfg.mode == VP_MODE_NOHOOK) big_capacity_prefix();  // (a million sequential operations: pointless under per-operation perturbation)
  for (cur_round = 0; cur_round < rounds; ++cur_round) {
    const int T = ds_nworkers < 2 ? 2 : ds_nworkers;
    cap_log = fixed_cap > 0 ? fixed_cap : 1 + (int)(vp_rand(&rng) % 6);
    n_push = 1 + (int)(vp_rand(&rng) % (unsigned)(T - 1));
    n_pop = 1 + (int)(vp_rand(&rng) % (unsigned)(T - n_push));
    quota = ops / n_push;
    if (quota < 1) quota = 1;
    total_target = quota * n_push;
    atomic_store(&popped_total, 0);
    atomic_store(&pushers_done, 0);
    atomic_store(&ring_abort, 0);
    atomic_store(&ring_last_success_ns, vp_now_ns());
    rb = lockfree_ring_buffer_create((uint32_t)cap_log);
    if (vp_rand(&rng) & 1) {
      // start the counters just below 2^32 (a multiple of the capacity below it): crossing that boundary must be a
      // non-event for 64-bit counters, and it exposes any narrowing of the index arithmetic
      const uint64_t start = 0x100000000ULL - ((uint64_t)(32 + vp_rand(&rng) % 64) << cap_log);
      rb->high = start;
      rb->low = start;
      vp_count("ring_rounds_crossing_2pow32", 1);
    }
    int i;
    for (i = 0; i < n_push + n_pop; ++i) vp_log_reset(&ds_w[i].log);
    ds_run_round(n_push + n_pop, round_fn);
    for (;;) {  // final drain
      vp_op_t* o = vp_log_begin(&ds_w[0].log, 0, VP_OP_POP, 0);
      void* v = lockfree_ring_buffer_trypop(rb);
      if (!v) {
        vp_log_end(o, VP_RES_EMPTY, 0);
        break;
      }
      vp_log_end(o, VP_RES_OK, (uint64_t)(uintptr_t)v);
    }
    vp_hist_t h;
    ds_history_begin(&h, n_push + n_pop);
    vp_report_t rep = {"C16", "ring_buffer"};
    char ctx[96];
    snprintf(ctx, sizeof(ctx), "round %d (capacity %d, %d pushers, %d poppers)", cur_round, 1 << cap_log, n_push, n_pop);
    vp_val_t* vals;
    size_t nv = vp_vals_build(&h, &vals, &rep, ctx);
    vp_check_no_loss(vals, nv, &rep, ctx);  // (the drain above still applies to whatever was pushed)
    vp_check_fifo(vals, nv, &rep, ctx, 1);
    vp_check_capacity(&h, 1L << cap_log, &rep, ctx);
    vp_check_isolated_fail(&h, 1L << cap_log, &rep, ctx);
    free(vals);
    ds_history_end(&h, ctx);
    vp_add(c_laps, total_target >> cap_log);
    lockfree_ring_buffer_destroy(rb);
    vp_add(c_rounds, 1);
    if (atomic_load(&ring_abort)) {
      vp_count("rounds_aborted_no_progress", 1);
      vp_note("ring round %d aborted: a thread failed %ld consecutive times", cur_round, STUCK_STREAK);
      break;
    }
    if (vp_violation_count()) break;
  }
}
