// C09: sleeping fibers wake exactly once and never early; others keep running meanwhile.
#include <time.h>

#include "fb_common.h"

static int trial, scen;
static _Atomic long ticker_count;
static _Atomic int stop_ticker, stop_busy;
static vp_counter_t *c_sleeps, *c_trials, *c_minslack_us, *c_cohort, *c_api[4], *c_cpu_before, *c_busy_yielders, *c_quick_exit, *c_short, *c_shortened, *c_lag, *c_lagmax;

static const long durations_us[] = {0, 1, 999, 1000, 4900, 5000, 7000, 12000, 20000};

static void do_sleep(fb_slot_t* s, int api, long us) {
  struct timespec a, b;
  vp_gfiber_t* g = vp_ghost_self();
  const uint64_t wake0 = g ? atomic_load(&g->sleep_wakes) : 0;
  const uint64_t reg0 = g ? atomic_load(&g->sleep_regs) : 0;
  const uint64_t out0 = g ? atomic_load(&g->switches_out) : 0;
  const long tick0 = atomic_load(&ticker_count);
  long req_us = us;
  clock_gettime(CLOCK_MONOTONIC, &a);
  switch (api) {
    case 0:
      FB_BLOCKING(s, "C09 fiber_sleep", fiber_sleep((uint32_t)(us / 1000000), (uint32_t)(us % 1000000)));
      break;
    case 1:
      FB_BLOCKING(s, "C09 usleep", usleep((useconds_t)us));
      break;
    case 2: {
      struct timespec rq;
      rq.tv_sec = us / 1000000;
      rq.tv_nsec = (us % 1000000) * 1000;
      FB_BLOCKING(s, "C09 nanosleep", nanosleep(&rq, NULL));
      break;
    }
    default: {
      const unsigned sec = (unsigned)(us / 1000000);
      req_us = (long)sec * 1000000;
      FB_BLOCKING(s, "C09 sleep", sleep(sec));
      break;
    }
  }
  clock_gettime(CLOCK_MONOTONIC, &b);
  const long el_us = (long)((b.tv_sec - a.tv_sec) * 1000000L + (b.tv_nsec - a.tv_nsec) / 1000);
  vp_add(c_sleeps, 1);
  vp_add(c_api[api], 1);
  if (el_us < req_us) {
    const uint64_t a_ns = (uint64_t)a.tv_sec * 1000000000ULL + (uint64_t)a.tv_nsec;
    vp_violation("C09", "sleep:early", "trial %d scenario %d: %s for %ld us returned after %ld us (wake tick registered: %llu; tick base now %llu; "
                 "the monotonic clock puts the tick base at %llu when the call was made and at %llu now)", trial, scen,
                 api == 0 ? "fiber_sleep" : (api == 1 ? "usleep" : (api == 2 ? "nanosleep" : "sleep")), req_us, el_us,
                 (unsigned long long)(g ? atomic_load(&g->sleep_wake_tick) : 0), (unsigned long long)vp_ghost_ticks(),
                 (unsigned long long)vp_ghost_clock_ticks(a_ns), (unsigned long long)vp_ghost_clock_ticks(vp_now_ns()));
  }
  else
    vp_min(c_minslack_us, el_us - req_us + 1);
  // the library rounds a request of X ms up to X+1 ticks of 5 ms counted from its tick base; a sleep that lasted less than X ticks
  // was registered against a base that was missing ticks already consumed from the timer (still legal unless shorter than requested)
  if (api != 3 && el_us + 500 < (req_us / 1000 + 1) * 5000) vp_add(c_shortened, 1);
  if (g && api != 3) {
    // how far the tick base this sleep was registered against lagged behind the monotonic clock (evidence, not a verdict: a lagging
    // base shortens the sleep by that many ticks once they are delivered; whether that makes it early is judged above)
    const uint64_t a_ns2 = (uint64_t)a.tv_sec * 1000000000ULL + (uint64_t)a.tv_nsec;
    const uint64_t clk = vp_ghost_clock_ticks(a_ns2), wake = atomic_load(&g->sleep_wake_tick), span = (uint64_t)(req_us / 1000 + 1);
    if (clk && wake >= span && clk > wake - span) {
      vp_add(c_lag, 1);
      vp_max(c_lagmax, (long)(clk - (wake - span)));
    }
  }
  if (g) {
    // (the library may add a courtesy yield after resuming; what must be unique is the sleep registration and its wake-up)
    const uint64_t wk = atomic_load(&g->sleep_wakes) - wake0, rg = atomic_load(&g->sleep_regs) - reg0, so = atomic_load(&g->switches_out) - out0;
    if (wk != 1 || rg != 1 || so < 1)
      vp_violation("C09", "sleep:not-exactly-once", "trial %d scenario %d: one sleep call registered %llu sleeps, was woken from sleep %llu times and suspended %llu times", trial, scen,
                   (unsigned long long)rg, (unsigned long long)wk, (unsigned long long)so);
  }
  if (scen == 0 && vp_cfg.threads == 1 && !atomic_load(&stop_ticker) && atomic_load(&ticker_count) == tick0)
    vp_violation("C09", "sleep:others-stalled", "trial %d: a ready ticker fiber on the same kernel thread made no progress while fiber %d slept %ld us", trial, s->id, el_us);
}

static void* sleeper(void* a) {
  fb_slot_t* s = (fb_slot_t*)a;
  int i;
  const int n = 1 + (int)(vp_rand(&s->rng) % 3);
  for (i = 0; i < n; ++i) {
    const int api = (int)(vp_rand(&s->rng) % 3);
    long us = durations_us[vp_rand(&s->rng) % (sizeof(durations_us) / sizeof(durations_us[0]))];
    if (s->c > 0) us = s->c;  // cohort: same duration for everybody
    do_sleep(s, api, us);
  }
  return NULL;
}
static void* quick_exit_sleeper(void* a) {  // finishes right after waking: its stack (holding the sleeper node) is reclaimed
  fb_slot_t* s = (fb_slot_t*)a;
  do_sleep(s, 0, s->c);
  vp_add(c_quick_exit, 1);
  return NULL;
}
static _Atomic uint64_t cpu_deadline_ns;
static int cpu_rounds;
static void* cpu_then_sleep(void* a) {
  fb_slot_t* s = (fb_slot_t*)a;
  int r;
  for (r = 0; r < cpu_rounds; ++r) {
    // CPU-bound phase without any yield up to a COMMON deadline: nobody polls the timer meanwhile if every thread is
    // busy (ticks pile up unread), and then all threads call the sleep at the same instant
    const uint64_t end = atomic_load(&cpu_deadline_ns) + (uint64_t)r * (uint64_t)s->c * 1000000ULL;
    while (vp_now_ns() < end) {
    }
    vp_add(c_cpu_before, 1);
    do_sleep(s, 1, r == 0 ? 20000 : 3000);
  }
  return NULL;
}
static void* ticker(void* a) {
  (void)a;
  while (!atomic_load(&stop_ticker)) {
    atomic_fetch_add(&ticker_count, 1);
    fiber_yield();
  }
  return NULL;
}
static void* busy_yielder(void* a) {
  (void)a;
  while (!atomic_load(&stop_busy)) fiber_yield();
  return NULL;
}

// scenario 5: many fibers repeating short sleeps (0.2..4.9 ms, i.e. one or two ticks), so that some sleep is being registered at every
// phase of every tick - in particular while another kernel thread holds ticks it has read from the timer but not yet accounted
static void* short_repeater(void* a) {
  fb_slot_t* s = (fb_slot_t*)a;
  int i;
  for (i = 0; i < (int)s->c; ++i) {
    const long us = 200 + (long)(vp_rand(&s->rng) % 4700);
    do_sleep(s, (int)(vp_rand(&s->rng) % 3), us);
    vp_add(c_short, 1);
  }
  return NULL;
}

// final phase (boundary=1): inputs at the edges of the argument types. (a) one-second-class requests around the microsecond /
// nanosecond carries, all started together and judged by the usual duration oracle; (b) very long requests (hours to the largest
// representable values): the run cannot wait for them, but it can see one come back - any return is early. They are still asleep
// when the process ends.
static _Atomic int bd_done;
static void* bd_short(void* a) {
  fb_slot_t* s = (fb_slot_t*)a;
  const int k = (int)s->c;
  struct timespec a0, b0, rq;
  long req_ns = 0;
  clock_gettime(CLOCK_MONOTONIC, &a0);
  switch (k) {
    case 0: rq.tv_sec = 0; rq.tv_nsec = 999999999; req_ns = 999999999; nanosleep(&rq, NULL); break;
    case 1: rq.tv_sec = 0; rq.tv_nsec = 999999001; req_ns = 999999001; nanosleep(&rq, NULL); break;
    case 2: rq.tv_sec = 0; rq.tv_nsec = 999999000; req_ns = 999999000; nanosleep(&rq, NULL); break;
    case 3: rq.tv_sec = 1; rq.tv_nsec = 0; req_ns = 1000000000; nanosleep(&rq, NULL); break;
    case 4: req_ns = 999999000; usleep(999999); break;
    case 5: req_ns = 1000000000; usleep(1000000); break;
    case 6: req_ns = 1000001000; usleep(1000001); break;
    case 7: req_ns = 1000000000; sleep(1); break;
    case 8: req_ns = 1000000000; fiber_sleep(1, 0); break;
    case 9: req_ns = 999999000; fiber_sleep(0, 999999); break;
    case 10: rq.tv_sec = 0; rq.tv_nsec = 1; req_ns = 1; nanosleep(&rq, NULL); break;
    default: rq.tv_sec = 0; rq.tv_nsec = 1001; req_ns = 1001; nanosleep(&rq, NULL); break;
  }
  clock_gettime(CLOCK_MONOTONIC, &b0);
  const long el = (long)(b0.tv_sec - a0.tv_sec) * 1000000000L + (b0.tv_nsec - a0.tv_nsec);
  if (el < req_ns)
    vp_violation("C09", "sleep:early", "boundary request %d: asked for %ld ns, returned after %ld ns", k, req_ns, el);
  vp_add(c_sleeps, 1);
  vp_count("sleep_boundary_requests", 1);
  atomic_fetch_add(&bd_done, 1);
  return NULL;
}
static void* bd_long(void* a) {
  fb_slot_t* s = (fb_slot_t*)a;
  const int k = (int)s->c;
  static const unsigned secs[] = {4295, 4296, 8590, 86400, 4294968, 4294967, 2147484, 4294967295u};
  struct timespec a0, b0, rq;
  const char* what = "";
  unsigned long long req_s = 0;
  clock_gettime(CLOCK_MONOTONIC, &a0);
  if (k < 8) {
    req_s = secs[k];
    what = "sleep";
    sleep(secs[k]);
  } else if (k < 16) {
    req_s = secs[k - 8];
    what = "fiber_sleep";
    fiber_sleep(secs[k - 8], 0);
  } else if (k < 24) {
    req_s = secs[k - 16];
    what = "nanosleep";
    rq.tv_sec = (time_t)secs[k - 16];
    rq.tv_nsec = 0;
    nanosleep(&rq, NULL);
  } else {
    req_s = 4294;
    what = "usleep(4294967295)";
    usleep(4294967295u);
  }
  clock_gettime(CLOCK_MONOTONIC, &b0);
  const double el = (double)(b0.tv_sec - a0.tv_sec) + (double)(b0.tv_nsec - a0.tv_nsec) / 1e9;
  if (el < (double)req_s)
    vp_violation("C09", "sleep:early", "%s for %llu s returned after %.3f s", what, req_s, el);
  return NULL;
}
static void boundary_phase(void) {
  int i;
  scen = 6;
  atomic_store(&bd_done, 0);
  for (i = 0; i < 25; ++i) {
    fb_spawn(bd_long, (void*)(intptr_t)i);
    vp_count("sleep_very_long_requests_still_asleep_at_exit", 1);
  }
  for (i = 0; i < 12; ++i) fb_spawn(bd_short, (void*)(intptr_t)i);
  fb_slot_t* me = fb_slot_new();
  atomic_store(&me->where, "C09 one-second-class sleeps");
  while (atomic_load(&bd_done) < 12 && !vp_violation_count()) usleep(20000);
  usleep(300000);  // a little longer for a long request that came back early to be seen
  atomic_store(&me->where, (const char*)0);
  vp_case();
  vp_sample("boundary phase: 12 one-second-class requests around the carries judged by duration; 25 requests of 4294 s .. 2^32-1 s were still asleep at the end");
}

static void* root(void* x) {
  (void)x;
  const int trials = (int)vp_param("trials", 12);
  const int maxn = (int)vp_param("maxn", 200);
  const int only = (int)vp_param("scenario", -1);
  c_sleeps = vp_counter("sleep_calls");
  c_trials = vp_counter("sleep_trials");
  c_minslack_us = vp_counter("sleep_min_slack_us_plus1");
  c_cohort = vp_counter("sleep_same_tick_cohort_fibers");
  c_api[0] = vp_counter("sleep_api_fiber_sleep");
  c_api[1] = vp_counter("sleep_api_usleep");
  c_api[2] = vp_counter("sleep_api_nanosleep");
  c_api[3] = vp_counter("sleep_api_sleep");
  c_cpu_before = vp_counter("sleep_after_cpu_bound_phase");
  c_busy_yielders = vp_counter("sleep_with_every_thread_busy_yielding");
  c_quick_exit = vp_counter("sleep_then_exit_immediately");
  c_short = vp_counter("sleep_short_repeated");
  c_shortened = vp_counter("sleep_shortened_by_ticks_in_flight");
  c_lag = vp_counter("sleep_registered_against_tick_base_behind_the_clock");
  c_lagmax = vp_counter("sleep_max_tick_base_lag_ticks");
  uint64_t rng = vp_mix(vp_cfg.seed, 909);
  static fb_slot_t* sl[1024];
  for (trial = 0; trial < trials; ++trial) {
    scen = only >= 0 ? only : (int)(vp_rand(&rng) % 6);
    fb_slots_reset();
    int n = 0, i;
    atomic_store(&stop_ticker, 0);
    atomic_store(&stop_busy, 0);
    fb_slot_t* tk = NULL;
    static fb_slot_t* busy[64];
    int nbusy = 0;
    switch (scen) {
      case 0: {  // mixed durations and APIs, a ticker runs alongside
        tk = fb_spawn(ticker, NULL);
        const int N = 1 + (int)(vp_rand(&rng) % (unsigned)maxn);
        for (i = 0; i < N; ++i) sl[n++] = fb_spawn(sleeper, NULL);
        break;
      }
      case 1: {  // large same-deadline cohort (one tree node with a long list), exiting at once after waking
        const int N = 2 + (int)(vp_rand(&rng) % (unsigned)maxn);
        const long us = durations_us[2 + vp_rand(&rng) % 6];
        for (i = 0; i < N; ++i) sl[n++] = fb_spawn(quick_exit_sleeper, (void*)(intptr_t)us);
        vp_add(c_cohort, N);
        break;
      }
      case 2: {  // every kernel thread CPU-bound (no polling) before the sleep: stale tick counter
        const long ms = 60 + (long)(vp_rand(&rng) % 140);
        cpu_rounds = (int)vp_param("cpu_rounds", 6);
        atomic_store(&cpu_deadline_ns, vp_now_ns() + (uint64_t)ms * 1000000ULL);
        for (i = 0; i < vp_cfg.threads; ++i) sl[n++] = fb_spawn(cpu_then_sleep, (void*)(intptr_t)ms);
        break;
      }
      case 3: {  // every kernel thread always has a runnable (yielding) fiber while others sleep
        for (i = 0; i < vp_cfg.threads + 2 && nbusy < 64; ++i) busy[nbusy++] = fb_spawn(busy_yielder, NULL);
        const int N = 1 + (int)(vp_rand(&rng) % 20);
        for (i = 0; i < N; ++i) sl[n++] = fb_spawn(sleeper, NULL);
        vp_add(c_busy_yielders, N);
        break;
      }
      case 5: {  // short sleeps repeated by many fibers: registrations at every phase of the tick
        const int N = 20 + (int)(vp_rand(&rng) % 150);
        const int reps = 5 + (int)(vp_rand(&rng) % 15);
        for (i = 0; i < N; ++i) sl[n++] = fb_spawn(short_repeater, (void*)(intptr_t)reps);
        break;
      }
      default: {  // seconds + microseconds
        const int N = 1 + (int)(vp_rand(&rng) % 4);
        for (i = 0; i < N; ++i) sl[n++] = fb_spawn(sleeper, (void*)(intptr_t)(vp_param("long_us", 120000) + (long)(vp_rand(&rng) % 1000)));
        if (vp_param("sleep_seconds", 0)) {
          fb_slot_t* me = fb_slot_new();
          do_sleep(me, 3, 1000000);
          do_sleep(me, 2, 1000001);
        }
        break;
      }
    }
    fb_join_all(sl, n);
    atomic_store(&stop_ticker, 1);
    atomic_store(&stop_busy, 1);
    if (tk) fiber_join(tk->fiber, NULL);
    for (i = 0; i < nbusy; ++i) fiber_join(busy[i]->fiber, NULL);
    vp_sig(vp_mix(((uint64_t)scen << 16) | (uint64_t)n, (uint64_t)vp_cfg.threads * 977 + (uint64_t)vp_get(c_sleeps)));
    if (trial < 3) vp_sample("sleep trial %d: scenario %d (%s), %d sleeping fibers, %d kernel threads", trial, scen,
                             scen == 0 ? "mixed durations/APIs with ticker" : scen == 1 ? "same-deadline cohort exiting at once" : scen == 2 ? "CPU-bound phase on every thread then usleep(20ms)"
                             : scen == 3 ? "every thread busy yielding" : scen == 5 ? "short sleeps repeated by many fibers" : "long sleeps", n, vp_cfg.threads);
    vp_add(c_trials, 1);
    vp_case();
    if (vp_violation_count()) break;
  }
  if (vp_param("boundary", 0) && !vp_violation_count()) {
    boundary_phase();
    vp_mark_done();
    vp_finish();
  }
  return NULL;
}

int main(int argc, char** argv) { return fb_main(argc, argv, root); }
