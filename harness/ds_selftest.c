// Checker self-tests: every history checker must stay silent on a hand-written legal history and must flag a
// hand-written bad one (duplicate, loss, phantom, reorder, illegal empty, over-capacity, illegal full, LIFO inversion).
#include <unistd.h>

#include "ds_common.h"

static vp_op_t H[64];
static size_t hn;
static void op(int thr, int o, int res, uint64_t val, uint64_t inv, uint64_t ret) {
  H[hn].thr = (uint16_t)thr;
  H[hn].op = (uint8_t)o;
  H[hn].res = (uint8_t)res;
  H[hn].val = val;
  H[hn].inv = inv;
  H[hn].ret = ret;
  ++hn;
}
enum { Q_FIFO = 1, Q_EMPTY = 2, Q_LOSS = 4, Q_CAP = 8, Q_ISO = 16, Q_LIFO = 32 };
static long run(int which, long cap) {
  vp_hist_t h;
  h.n = hn;
  h.ops = (vp_op_t*)malloc(sizeof(vp_op_t) * (hn ? hn : 1));
  memcpy(h.ops, H, sizeof(vp_op_t) * hn);
  qsort(h.ops, h.n, sizeof(vp_op_t), vp_cmp_inv);
  const long before = vp_violation_count();
  vp_report_t rep = {"SELFTEST", "synthetic"};
  vp_val_t* vals;
  size_t nv = vp_vals_build(&h, &vals, &rep, "selftest");
  if (which & Q_LOSS) vp_check_no_loss(vals, nv, &rep, "selftest");
  if (which & Q_FIFO) vp_check_fifo(vals, nv, &rep, "selftest", 1);
  if (which & Q_EMPTY) vp_check_empty(&h, vals, nv, &rep, "selftest");
  if (which & Q_CAP) vp_check_capacity(&h, cap, &rep, "selftest");
  if (which & Q_ISO) vp_check_isolated_fail(&h, cap, &rep, "selftest");
  if (which & Q_LIFO) vp_check_lifo(vals, nv, &rep, "selftest");
  free(vals);
  free(h.ops);
  hn = 0;
  return vp_violation_count() - before;
}

static int failures;
static void expect(const char* name, long got, int want_flag) {
  const int ok = want_flag ? got > 0 : got == 0;
  fprintf(stdout, "selftest %-34s %s (violations=%ld)\n", name, ok ? "ok" : "FAILED", got);
  if (!ok) ++failures;
}

void ds_sub_selftest(void) {
  const int P = VP_OP_PUSH, O = VP_OP_POP, OK = VP_RES_OK, E = VP_RES_EMPTY, F = VP_RES_FAIL;
  int saved = dup(2);
  if (!vp_param("verbose", 0)) {  // the expected violations are noisy
    FILE* n = freopen("/dev/null", "w", stderr);
    (void)n;
  }
  // legal concurrent queue history: overlapping pushes may be popped in either order; empty during a push
  op(1, P, OK, 1, 1, 4); op(2, P, OK, 2, 2, 3); op(3, O, OK, 2, 5, 6); op(3, O, OK, 1, 7, 8); op(3, O, E, 0, 9, 10);
  op(1, P, OK, 3, 11, 14); op(3, O, E, 0, 12, 13); op(3, O, OK, 3, 15, 16);
  expect("legal queue history", run(Q_FIFO | Q_EMPTY | Q_LOSS, 0), 0);
  op(1, P, OK, 1, 1, 2); op(2, O, OK, 1, 3, 4); op(3, O, OK, 1, 5, 6);
  expect("duplicate", run(Q_LOSS, 0), 1);
  op(1, P, OK, 1, 1, 2); op(1, P, OK, 2, 3, 4); op(2, O, OK, 2, 5, 6); op(2, O, E, 0, 7, 8);
  expect("loss", run(Q_LOSS, 0), 1);
  op(1, P, OK, 1, 1, 2); op(2, O, OK, 9, 3, 4); op(2, O, OK, 1, 5, 6);
  expect("phantom", run(Q_LOSS, 0), 1);
  op(1, P, OK, 1, 1, 2); op(1, P, OK, 2, 3, 4); op(2, O, OK, 2, 5, 6); op(2, O, OK, 1, 7, 8);
  expect("fifo reorder", run(Q_FIFO, 0), 1);
  op(2, O, OK, 1, 1, 2); op(1, P, OK, 1, 3, 4);
  expect("taken before pushed", run(0, 0), 1);
  op(1, P, OK, 1, 1, 2); op(2, O, E, 0, 3, 4); op(2, O, OK, 1, 5, 6);
  expect("illegal empty", run(Q_EMPTY, 0), 1);
  op(1, P, OK, 1, 1, 2); op(1, P, OK, 2, 3, 6); op(2, O, E, 0, 4, 5); op(2, O, OK, 1, 7, 8); op(2, O, OK, 2, 9, 10);
  expect("empty excused by push in flight", run(Q_EMPTY, 0), 0);
  op(1, P, OK, 1, 1, 2); op(1, P, OK, 2, 3, 4); op(1, P, OK, 3, 5, 6); op(2, O, OK, 1, 7, 8); op(2, O, OK, 2, 9, 10); op(2, O, OK, 3, 11, 12);
  expect("over capacity (cap 2)", run(Q_CAP, 2), 1);
  op(1, P, OK, 1, 1, 2); op(1, P, F, 2, 3, 4); op(2, O, OK, 1, 5, 6);
  expect("illegal full (cap 2, 1 inside)", run(Q_ISO, 2), 1);
  op(1, P, OK, 1, 1, 2); op(1, P, OK, 2, 3, 4); op(1, P, F, 3, 5, 6); op(2, O, OK, 1, 7, 8); op(2, O, OK, 2, 9, 10); op(2, O, E, 0, 11, 12);
  expect("legal full and empty", run(Q_ISO | Q_CAP, 2), 0);
  op(1, P, OK, 1, 1, 2); op(2, O, E, 0, 3, 4); op(2, O, OK, 1, 5, 6);
  expect("illegal isolated empty", run(Q_ISO, 2), 1);
  op(1, P, OK, 1, 1, 2); op(1, P, OK, 2, 3, 4); op(2, O, OK, 1, 5, 6); op(2, O, OK, 2, 7, 8);
  expect("lifo inversion", run(Q_LIFO, 0), 1);
  op(1, P, OK, 1, 1, 2); op(1, P, OK, 2, 3, 4); op(2, O, OK, 2, 5, 6); op(2, O, OK, 1, 7, 8);
  expect("legal lifo", run(Q_LIFO, 0), 0);
  fflush(stdout);
  dup2(saved, 2);
  _exit(failures ? 1 : 0);
}
