// C14: hazard pointers, driven directly through the public API with ghost protection counts.
// Readers: publish -> (library fence) -> re-validate -> use (canary must stay ALIVE) -> release.
// Writers: unlink from the shared slot, retire with hazard_pointer_free. GC callback: nobody may hold a
// validated protection; bounded garbage is checked after every retirement.
#include "ds_common.h"
#include <sys/mman.h>

#include "hazard_pointer.h"

#define ALIVE 0xA11FEu
#define DEAD 0xDEADu
#define NSLOTS 8
static int nslots = NSLOTS;  // "slots" parameter (1 for the focused publish/validate race)
static int tight;            // no harness delays
#define H_VALIDATED 100  // harness perturbation point: reader holds a validated protection

typedef struct hnode {
  hazard_node_t hazard;  // must be first
  _Atomic int protect;
  _Atomic unsigned canary;
  _Atomic int retired_by;  // worker id + 1
  uint64_t serial;
} hnode_t;

static _Atomic(hazard_pointer_thread_record_t*) hp_head;
static hazard_pointer_thread_record_t* recs[DS_MAX_WORKERS];
static _Atomic(hnode_t*) slots[NSLOTS];
static int K;  // hazard pointers per record
static int n_readers, n_writers;
static long quota;
static int cur_round;
static _Atomic int stop_readers;
static _Atomic long live_nodes, reclaimed_total, retired_total;
static _Atomic uint64_t serial_ctr;
static int late_joiners;

static vp_counter_t *c_validated, *c_revalidate_fail, *c_retired, *c_reclaimed, *c_scans_kept, *c_rounds, *c_maxgarbage,
    *c_records, *c_bounded_checks, *c_self_protect;

#ifndef VP_ASAN
// shuffled arena so that sorted/binary-searched addresses come in arbitrary order
static hnode_t* arena;
static size_t arena_n;
static hnode_t** freelist;
static size_t free_n;
static pthread_spinlock_t arena_lock;
#endif

static hnode_t* node_new(void) {
  hnode_t* n;
#ifdef VP_ASAN
  n = (hnode_t*)malloc(sizeof(*n));
#else
  pthread_spin_lock(&arena_lock);
  n = free_n ? freelist[--free_n] : NULL;
  pthread_spin_unlock(&arena_lock);
  if (!n) n = (hnode_t*)malloc(sizeof(*n));
#endif
  n->hazard.next = NULL;
  atomic_store(&n->protect, 0);
  atomic_store(&n->canary, ALIVE);
  atomic_store(&n->retired_by, 0);
  n->serial = atomic_fetch_add(&serial_ctr, 1);
  atomic_fetch_add(&live_nodes, 1);
  return n;
}

static void node_gc(void* gc_data, hazard_node_t* h) {
  (void)gc_data;
  hnode_t* n = (hnode_t*)h;
  const int p = atomic_load(&n->protect);
  if (p > 0)
    vp_violation("C14", "hazard:reclaimed-while-protected",
                 "round %d: node #%llu handed to its reclamation callback while %d reader(s) hold a validated hazard pointer to it",
                 cur_round, (unsigned long long)n->serial, p);
  if (atomic_exchange(&n->canary, DEAD) != ALIVE)
    vp_violation("C14", "hazard:reclaimed-twice", "round %d: node #%llu reclaimed twice", cur_round, (unsigned long long)n->serial);
  atomic_fetch_add(&reclaimed_total, 1);
  atomic_fetch_sub(&live_nodes, 1);
  vp_add(c_reclaimed, 1);
#ifdef VP_ASAN
  free(n);
#else
  pthread_spin_lock(&arena_lock);
  freelist[free_n++] = n;
  // keep the free list shuffled
  if (free_n > 1) {
    size_t j = (size_t)(n->serial * 2654435761u) % free_n;
    hnode_t* t = freelist[j];
    freelist[j] = freelist[free_n - 1];
    freelist[free_n - 1] = t;
  }
  pthread_spin_unlock(&arena_lock);
#endif
}

// one retired node in eight is a "parent": its reclamation callback retires a further node on the same record (the callback runs on
// the thread that retired the parent, inside that record's scan). The child is a retired node like any other.
static _Atomic long children_retired;
static vp_counter_t* c_children;
static void node_gc_parent(void* gc_data, hazard_node_t* h) {
  hazard_pointer_thread_record_t* r = (hazard_pointer_thread_record_t*)gc_data;
  node_gc(NULL, h);
  hnode_t* child = node_new();
  child->hazard.gc_data = NULL;
  child->hazard.gc_function = &node_gc;
  atomic_store(&child->retired_by, 1000);
  atomic_fetch_add(&retired_total, 1);
  atomic_fetch_add(&children_retired, 1);
  vp_add(c_children, 1);
  hazard_pointer_free(r, &child->hazard);
}

static hazard_pointer_thread_record_t* my_rec(ds_worker_t* w) {
  if (!recs[w->id]) {
    recs[w->id] = hazard_pointer_thread_record_create_and_push(&hp_head, (size_t)K);
    vp_add(c_records, 1);
  }
  return recs[w->id];
}

static void retire(ds_worker_t* w, hazard_pointer_thread_record_t* r, hnode_t* old) {
  atomic_store(&old->retired_by, w->id + 1);
  old->hazard.gc_data = NULL;
  old->hazard.gc_function = &node_gc;
  if ((old->serial & 7) == 3) {
    old->hazard.gc_data = r;
    old->hazard.gc_function = &node_gc_parent;
  }
  atomic_fetch_add(&retired_total, 1);
  vp_add(c_retired, 1);
  hazard_pointer_free(r, &old->hazard);
  // bounded garbage: after a retirement the record holds fewer retired nodes than its threshold
  const size_t thr = atomic_load(&r->retire_threshold);
  vp_add(c_bounded_checks, 1);
  vp_max(c_maxgarbage, (long)r->retired_count);
  // (a scan that keeps up to thr/2 protected nodes and whose callbacks retire children can end just above the threshold; the next
  // retirement scans again. Twice the threshold is never reached by a correct implementation.)
  if (r->retired_count >= 2 * thr)
    vp_violation("C14", "hazard:garbage-unbounded", "round %d: record of thread %d holds %zu retired nodes, threshold is %zu", cur_round,
                 w->id, r->retired_count, thr);
}

static void reader(ds_worker_t* w) {
  hazard_pointer_thread_record_t* r = my_rec(w);
  hnode_t* held[8];
  while (!atomic_load(&stop_readers)) {
    int k, got = 0;
    const int want = 1 + (int)(vp_rand(&w->rng) % (unsigned)K);
    for (k = 0; k < want; ++k) {
      const int s = (int)(vp_rand(&w->rng) % (unsigned)nslots);
      hnode_t* n = atomic_load(&slots[s]);
      if (!n) continue;
      hazard_pointer_using(r, &n->hazard, (size_t)got);
      if (atomic_load(&slots[s]) != n) {  // lost the race: the protection is not validated
        hazard_pointer_done_using(r, (size_t)got);
        vp_add(c_revalidate_fail, 1);
        continue;
      }
      atomic_fetch_add(&n->protect, 1);
      held[got++] = n;
      vp_add(c_validated, 1);
    }
    for (k = 0; k < got; ++k)
      if (atomic_load(&held[k]->canary) != ALIVE)
        vp_violation("C14", "hazard:protected-node-reclaimed", "round %d: reader %d holds a validated hazard pointer to node #%llu which has been reclaimed",
                     cur_round, w->id, (unsigned long long)held[k]->serial);
    vp_point(H_VALIDATED, r, NULL);
    if (!tight) ds_tiny_delay(&w->rng, 300);
    for (k = 0; k < got; ++k) {
      if (atomic_load(&held[k]->canary) != ALIVE)
        vp_violation("C14", "hazard:protected-node-reclaimed", "round %d: node #%llu reclaimed while reader %d still uses it", cur_round,
                     (unsigned long long)held[k]->serial, w->id);
      atomic_fetch_sub(&held[k]->protect, 1);
    }
    for (k = got; k > 0; --k) hazard_pointer_done_using(r, (size_t)(k - 1));
  }
}

static void writer(ds_worker_t* w) {
  hazard_pointer_thread_record_t* r = my_rec(w);
  long i;
  for (i = 0; i < quota; ++i) {
    const int s = (int)(vp_rand(&w->rng) % (unsigned)nslots);
    hnode_t* n = node_new();
    // one time in four the retiring thread itself still holds a validated hazard pointer to the node it unlinks and retires
    // (its own scan runs inside the retirement): its own protection counts like anybody else's
    hnode_t* mine = NULL;
    if ((vp_rand(&w->rng) & 3) == 0) {
      mine = atomic_load(&slots[s]);
      if (mine) {
        hazard_pointer_using(r, &mine->hazard, (size_t)(K - 1));
        if (atomic_load(&slots[s]) != mine) {
          hazard_pointer_done_using(r, (size_t)(K - 1));
          mine = NULL;
        } else {
          atomic_fetch_add(&mine->protect, 1);
          vp_add(c_self_protect, 1);
        }
      }
    }
    hnode_t* old = atomic_exchange(&slots[s], n);
    if (old) retire(w, r, old);
    if (mine) {
      if (atomic_load(&mine->canary) != ALIVE)
        vp_violation("C14", "hazard:protected-node-reclaimed", "round %d: writer %d still holds a validated hazard pointer to node #%llu, which was reclaimed (retired by thread %d)",
                     cur_round, w->id, (unsigned long long)mine->serial, atomic_load(&mine->retired_by) - 1);
      atomic_fetch_sub(&mine->protect, 1);
      hazard_pointer_done_using(r, (size_t)(K - 1));
    }
    if (!tight && (vp_rand(&w->rng) & 7) == 0) ds_tiny_delay(&w->rng, 200);
  }
}

static _Atomic int writers_left;
static void round_fn(ds_worker_t* w) {
  ds_start_line();
  // late joiners register their record while others are already scanning
  if (w->id >= n_writers + n_readers - late_joiners) vp_real_sleep_us(200 + vp_rand(&w->rng) % 2000);
  if (w->id < n_writers) {
    writer(w);
    if (atomic_fetch_sub(&writers_left, 1) == 1) atomic_store(&stop_readers, 1);
  } else {
    reader(w);
  }
}

void ds_sub_hazard(void) {
  const long rounds = vp_param("rounds", 60);
  const long ops = vp_param("ops", 4000);
  c_validated = vp_counter("hp_validated_protections");
  c_revalidate_fail = vp_counter("hp_revalidation_lost_race");
  c_retired = vp_counter("hp_retired");
  c_reclaimed = vp_counter("hp_reclaimed");
  c_scans_kept = vp_counter("hp_nodes_still_retired_at_round_end");
  c_rounds = vp_counter("hp_rounds");
  c_maxgarbage = vp_counter("hp_max_retired_per_record");
  c_records = vp_counter("hp_records_registered");
  c_bounded_checks = vp_counter("hp_bounded_garbage_checks");
  c_self_protect = vp_counter("hp_retired_while_protected_by_the_retiring_thread");
  c_children = vp_counter("hp_retired_from_inside_a_reclamation_callback");
#ifndef VP_ASAN
  pthread_spin_init(&arena_lock, 0);
  arena_n = 4096;
  freelist = (hnode_t**)calloc(arena_n * 64, sizeof(hnode_t*));
  uint64_t ar = vp_mix(vp_cfg.seed, 99);
  size_t i;
  {
    // node addresses are spread over regions that lie gigabytes to terabytes apart (heap, and mappings requested at
    // distant hints), so sorting / searching the published pointers sees large and sign-changing differences
    static const uintptr_t hints[] = {0, 0x10000000000ULL, 0x10080001000ULL, 0x20000000000ULL, 0x5f0000000000ULL, 0x100000000ULL};
    const size_t per = arena_n / (sizeof(hints) / sizeof(hints[0]));
    size_t h, k = 0;
    for (h = 0; h < sizeof(hints) / sizeof(hints[0]); ++h) {
      hnode_t* base = NULL;
      if (hints[h]) {
        void* m = mmap((void*)(hints[h] + ((uintptr_t)(vp_rand(&ar) % 4096) << 12)), per * sizeof(hnode_t), PROT_READ | PROT_WRITE,
                       MAP_PRIVATE | MAP_ANONYMOUS, -1, 0);
        if (m != MAP_FAILED) base = (hnode_t*)m;
      }
      if (!base) base = (hnode_t*)calloc(per, sizeof(hnode_t));
      size_t q;
      for (q = 0; q < per; ++q) freelist[k++] = &base[q];
    }
    arena_n = k;
    arena = freelist[0];
  }
  for (i = arena_n - 1; i > 0; --i) {
    size_t j = vp_rand(&ar) % (i + 1);
    hnode_t* t = freelist[i];
    freelist[i] = freelist[j];
    freelist[j] = t;
  }
  free_n = arena_n;
#endif
  uint64_t rng = vp_mix(vp_cfg.seed, 1414);
  // K is fixed per process (all records of one list must have the same size)
  K = (int)vp_param("hpk", 1 + (int)(vp_rand(&rng) % 4));
  if (K > 8) K = 8;
  nslots = (int)vp_param("slots", NSLOTS);
  if (nslots < 1 || nslots > NSLOTS) nslots = NSLOTS;
  tight = (int)vp_param("tight", 0);
  for (cur_round = 0; cur_round < rounds; ++cur_round) {
    const int T = ds_nworkers;
    n_writers = 1 + (int)(vp_rand(&rng) % (unsigned)T);
    n_readers = T - n_writers;
    late_joiners = (int)(vp_rand(&rng) % (unsigned)(T));
    quota = ops / n_writers;
    if (quota < 8) quota = 8;
    atomic_store(&stop_readers, 0);
    atomic_store(&writers_left, n_writers);
    ds_run_round(T, round_fn);
    // quiescent: no reader holds anything. Structural facts about the record list:
    size_t nrec = 0;
    hazard_pointer_thread_record_t* c;
    for (c = atomic_load(&hp_head); c; c = c->next) ++nrec;
    for (c = atomic_load(&hp_head); c; c = c->next) {
      if (atomic_load(&c->retire_threshold) != 2 * nrec * (size_t)K)
        vp_violation("C14", "hazard:threshold-wrong", "round %d: %zu records with %d pointers each but a record has retire_threshold %zu (expected %zu)",
                     cur_round, nrec, K, (size_t)atomic_load(&c->retire_threshold), 2 * nrec * (size_t)K);
      size_t q;
      for (q = 0; q < c->hazard_pointers_count; ++q)
        if (c->hazard_pointers[q]) vp_violation("C14", "hazard:harness", "harness bug: hazard pointer still set at quiescence");
    }
    // bounded reclamation: with no protection left, 'threshold' further retirements by a thread reclaim everything
    // that thread retired before
    int wi;
    for (wi = 0; wi < n_writers; ++wi) {
      hazard_pointer_thread_record_t* r = recs[wi];
      if (!r) continue;
      // remember what is still pending in this record
      size_t npend = 0, cap = r->retired_count + 1;
      hnode_t** pend = (hnode_t**)malloc(cap * sizeof(hnode_t*));
      hazard_node_t* p;
      for (p = r->retired_list; p && npend < cap; p = p->next) pend[npend++] = (hnode_t*)p;
      uint64_t serials[64];
      size_t ns = npend < 64 ? npend : 64, z;
      for (z = 0; z < ns; ++z) serials[z] = pend[z]->serial;
      vp_add(c_scans_kept, (long)npend);
      const size_t thr = atomic_load(&r->retire_threshold);
      size_t t;
      const long before = atomic_load(&reclaimed_total);
      for (t = 0; t < thr; ++t) {
        hnode_t* n = node_new();
        retire(&ds_w[wi], r, n);
      }
      const long after = atomic_load(&reclaimed_total);
      // every previously pending node must be gone from the retired list now
      for (p = r->retired_list; p; p = p->next) {
        for (z = 0; z < ns; ++z)
          if (((hnode_t*)p)->serial == serials[z] && (hnode_t*)p == pend[z]) {
            vp_violation("C14", "hazard:not-reclaimed-after-threshold",
                         "round %d: node #%llu retired by thread %d is still unreclaimed after %zu further retirements with no hazard pointer set",
                         cur_round, (unsigned long long)serials[z], wi, thr);
            z = ns;
            break;
          }
      }
      if ((size_t)(after - before) < npend)
        vp_violation("C14", "hazard:not-reclaimed-after-threshold", "round %d: thread %d had %zu unprotected retired nodes but only %ld reclamations happened during %zu further retirements",
                     cur_round, wi, npend, after - before, thr);
      free(pend);
    }
    // conservation at quiescence: every node ever retired is either reclaimed or still on some record's retired list
    {
      long pending = 0;
      for (c = atomic_load(&hp_head); c; c = c->next) {
        hazard_node_t* p;
        for (p = c->retired_list; p; p = p->next) ++pending;
      }
      const long lost = atomic_load(&retired_total) - atomic_load(&reclaimed_total) - pending;
      if (lost != 0)
        vp_violation("C14", "hazard:retired-node-lost", "round %d: %ld nodes retired, %ld reclaimed, %ld still on the retired lists: %ld retired node(s) are neither reclaimed nor pending (%ld were retired from inside reclamation callbacks)",
                     cur_round, atomic_load(&retired_total), atomic_load(&reclaimed_total), pending, lost, atomic_load(&children_retired));
    }
    vp_sig(vp_mix(((uint64_t)n_writers << 16) | ((uint64_t)late_joiners << 8) | (uint64_t)K, (uint64_t)nrec));
    vp_progress();
    vp_case();
    vp_add(c_rounds, 1);
    if (vp_violation_count()) break;
  }
}
