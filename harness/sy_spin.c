// C18: ticket spinlock, used from fibers, never yielding while held. Counter preset near 2^32 to cross the wrap.
#include "fb_common.h"
// under TSan the harness-side occupancy counter must not itself create happens-before edges between owners
#ifdef VP_TSAN
#define OCC_ORDER memory_order_relaxed
#else
#define OCC_ORDER memory_order_seq_cst
#endif
#include "fiber_spinlock.h"

static fiber_spinlock_t sp;
static _Atomic int occ;
static int iters, trial;
static uint32_t last_serving;
static int have_last;
static long plain_counter;
static __thread uint32_t t_ticket;
static __thread const void* t_ticket_lock;
// per kernel thread (a fiber never migrates between taking a ticket and unlocking)
static struct {
  _Atomic int entering;   // about to call lock/trylock, ticket (if any) not recorded yet
  _Atomic int acquiring;  // took a ticket, not yet inside
  _Atomic uint32_t ticket;
  _Atomic int inside;  // between acquisition and unlock
  char pad[52];
} thr[VP_MAX_THREADS];
static _Atomic int spin_active;
static vp_counter_t *c_lock, *c_try_ok, *c_try_fail, *c_trials, *c_wraps, *c_contended;

static void spin_obs(int point, const void* a, const void* b, int tid) {
  (void)tid;
  if (point == FV_SPIN_TICKET) {
    t_ticket_lock = a;
    t_ticket = (uint32_t)(uintptr_t)b;
    atomic_store(&thr[tid].ticket, (uint32_t)(uintptr_t)b);
    atomic_store(&thr[tid].acquiring, 1);
  }
}

// logical deadlock: the lock is not free, nobody is inside, and the ticket being served belongs to no contender
static void spin_periodic(void) {
  static uint32_t last_s;
  static int streak;
  if (!atomic_load(&spin_active)) {
    streak = 0;
    return;
  }
  const uint32_t s = atomic_load(&sp.state.counters.ticket), u = atomic_load(&sp.state.counters.users);
  int i, ok = (s == u);
  for (i = 0; i < VP_MAX_THREADS && !ok; ++i) {
    if (atomic_load(&thr[i].inside)) ok = 1;
    else if (atomic_load(&thr[i].acquiring) && atomic_load(&thr[i].ticket) == s) ok = 1;
    else if (atomic_load(&thr[i].entering) && !atomic_load(&thr[i].acquiring)) ok = 1;  // its ticket is not known yet
  }
  if (ok || s != last_s) {
    streak = 0;
    last_s = s;
    return;
  }
  if (++streak >= 6) {
    vp_violation("C18", "spin:deadlock", "trial %d: now-serving=%u users=%u but no contender holds ticket %u and nobody is inside the lock: every waiter spins forever",
                 trial, s, u, s);
    vp_finish();
  }
}

__attribute__((noinline)) static void vp_payload_spin_section(fb_slot_t* s, int via_try, uint32_t my_ticket) {
  const int prev = atomic_fetch_add_explicit(&occ, 1, OCC_ORDER);
  if (prev != 0)
    vp_violation("C18", "spin:two-owners", "trial %d: fiber %d acquired the spinlock (%s) while %d other(s) hold it", trial, s->id, via_try ? "trylock" : "lock", prev);
  const uint32_t serving = atomic_load(&sp.state.counters.ticket);
  if (have_last && serving != last_serving + 1)
    vp_violation("C18", "spin:ticket-order", "trial %d: holder sees now-serving %u after %u (tickets must be served once each, in order)", trial, serving, last_serving);
  if (!via_try && serving != my_ticket)
    vp_violation("C18", "spin:not-my-ticket", "trial %d: fiber %d took ticket %u but entered while %u is being served", trial, s->id, my_ticket, serving);
  if (have_last && serving < last_serving) vp_add(c_wraps, 1);
  last_serving = serving;
  have_last = 1;
  plain_counter++;
  fb_spin(&s->rng, 30);
  atomic_fetch_sub_explicit(&occ, 1, OCC_ORDER);
}

static void* spin_fiber(void* a) {
  fb_slot_t* s = (fb_slot_t*)a;
  int i;
  for (i = 0; i < iters; ++i) {
    if (vp_rand(&s->rng) % 4 == 0) {
      const uint64_t sw = vp_self_switches();
      const long relax = vp_thread_hits(FV_CPU_RELAX);
      atomic_store(&thr[vp_tid()].entering, 1);
      const int ok = fiber_spinlock_trylock(&sp);
      if (ok == FIBER_SUCCESS) atomic_store(&thr[vp_tid()].inside, 1);
      atomic_store(&thr[vp_tid()].entering, 0);
      if (vp_self_switches() != sw || vp_thread_hits(FV_CPU_RELAX) != relax)
        vp_violation("C18", "spin:trylock-waited", "trial %d: fiber %d spun or was switched inside fiber_spinlock_trylock", trial, s->id);
      if (ok == FIBER_SUCCESS) {
        vp_add(c_try_ok, 1);
        vp_payload_spin_section(s, 1, 0);
        fiber_spinlock_unlock(&sp);
        atomic_store(&thr[vp_tid()].inside, 0);  // only after the unlock: "inside" must cover the whole time the lock is held
      } else {
        vp_add(c_try_fail, 1);
      }
    } else {
      const long relax = vp_thread_hits(FV_CPU_RELAX);
      atomic_store(&s->where, "C18 fiber_spinlock_lock");
      atomic_store(&thr[vp_tid()].entering, 1);
      fiber_spinlock_lock(&sp);
      atomic_store(&thr[vp_tid()].inside, 1);
      atomic_store(&thr[vp_tid()].acquiring, 0);
      atomic_store(&thr[vp_tid()].entering, 0);
      atomic_store(&s->where, (const char*)0);
      if (vp_thread_hits(FV_CPU_RELAX) != relax) vp_add(c_contended, 1);
      const uint32_t mine = t_ticket_lock == &sp ? t_ticket : atomic_load(&sp.state.counters.ticket);
      vp_add(c_lock, 1);
      vp_payload_spin_section(s, 0, mine);
      fiber_spinlock_unlock(&sp);
      atomic_store(&thr[vp_tid()].inside, 0);
    }
    vp_progress();
    if ((vp_rand(&s->rng) & 3) == 0) fiber_yield();
    else fb_spin(&s->rng, 100);
  }
  return NULL;
}

void* sy_spin_root(void* x) {
  (void)x;
  const int trials = (int)vp_param("trials", 20);
  iters = (int)vp_param("iters", 400);
  c_lock = vp_counter("spin_lock_sections");
  c_try_ok = vp_counter("spin_trylock_ok");
  c_try_fail = vp_counter("spin_trylock_fail");
  c_trials = vp_counter("spin_trials");
  c_wraps = vp_counter("spin_ticket_wraparounds");
  c_contended = vp_counter("spin_lock_calls_that_spun");
  vp_add_observer(spin_obs);
  vp_set_periodic(spin_periodic);
  uint64_t rng = vp_mix(vp_cfg.seed, 1818);
  for (trial = 0; trial < trials; ++trial) {
    const int F = 2 + (int)(vp_rand(&rng) % 30);
    fiber_spinlock_init(&sp);
    // start a few tickets before the 32-bit wrap
    const uint32_t start = 0xFFFFFFFFu - (uint32_t)(vp_rand(&rng) % 200);
    sp.state.counters.ticket = start;
    sp.state.counters.users = start;
    have_last = 0;
    plain_counter = 0;
    atomic_store(&occ, 0);
    fb_slots_reset();
    fb_slot_t* sl[64];
    int i;
    atomic_store(&spin_active, 1);
    for (i = 0; i < F; ++i) sl[i] = fb_spawn(spin_fiber, NULL);
    fb_join_all(sl, F);
    atomic_store(&spin_active, 0);
    const long sections = plain_counter;
    if ((uint32_t)(start + (uint32_t)sections) != atomic_load(&sp.state.counters.ticket) || atomic_load(&sp.state.counters.ticket) != atomic_load(&sp.state.counters.users))
      vp_violation("C18", "spin:counters-at-end", "trial %d: %ld sections from ticket %u but ticket=%u users=%u", trial, sections, start,
                   atomic_load(&sp.state.counters.ticket), atomic_load(&sp.state.counters.users));
    vp_sig(vp_mix((uint64_t)F, (uint64_t)vp_get(c_try_fail) * 3 + (uint64_t)vp_get(c_contended)));
    if (trial < 2) vp_sample("spinlock trial %d: %d fibers x %d ops on %d kernel threads, first ticket %u, %ld sections", trial, F, iters, vp_cfg.threads, start, sections);
    vp_add(c_trials, 1);
    vp_case();
    if (vp_violation_count()) break;
  }
  return NULL;
}
