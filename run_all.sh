#!/bin/bash
# run every registered check (tier = $1, default quick); prints one status line per property
TIER=${1:-quick}
rc_all=0
for p in $(python3 -c "import json;print(' '.join(c['property_id'] for c in json.load(open('$(dirname "$0")/MANIFEST.json'))['checks']))"); do
  t0=$(date +%s)
  out=$(python3 $(dirname "$0")/run_check.py $p --tier $TIER 2>&1); rc=$?
  echo "$p rc=$rc $(( $(date +%s) - t0 ))s :: $(echo "$out" | tail -1 | cut -c1-200)"
  [ $rc -ne 0 ] && rc_all=1
done
exit $rc_all
