"""Per-property run plans. Each entry: f(tier, seed) -> dict(runs, rule, min_events, assumptions)."""
import vplib
from vplib import Run

RT = ["vp_rt.c", "vp_ghost.c"]
DS_SRCS = ["ds_main.c", "ds_wsd.c", "ds_mpmc.c", "ds_mpsc.c", "ds_ring.c", "ds_wq.c", "ds_cas2.c", "ds_hazard.c", "ds_selftest.c"] + RT

FB = ["fb_common.c"] + RT
BINARIES = {
    "h_ds": ("h_ds", DS_SRCS),
    "h_sync": ("h_sync", ["sy_main.c", "sy_mutex.c", "sy_cond.c", "sy_sem.c", "sy_rwlock.c", "sy_barrier.c", "sy_spin.c"] + FB),
    "h_yield": ("h_yield", ["h_yield.c"] + FB),
    "h_rt": ("h_rt", ["h_rt.c"] + FB),
    "h_sleep": ("h_sleep", ["h_sleep.c"] + FB),
    "h_join": ("h_join", ["h_join.c"] + FB),
    "h_chan": ("h_chan", ["h_chan.c"] + FB),
    "h_io": ("h_io", ["h_io.c"] + FB),
    "h_ctx": ("h_ctx", ["h_ctx.c", "ctx_shim.S"] + RT),
}

ASSUME_COMMON = [
    "x86-64 Linux, gcc 12; verdicts hold for the executions produced by these runs only",
    "library built from /repo working tree with -DFIBER_VERIF; hooks are additive observation points",
]


CUR_TIER = "quick"  # set by run_check.py before a plan is built


def _limits():
    # wall-clock limits only bound runaway processes (their firing is "inconclusive"); thorough runs are much longer
    return (120, 400) if CUR_TIER == "quick" else (1500, 2400)


def S(seed, k):
    """derive a per-run seed"""
    return (seed * 1000003 + k * 7919 + 1) & 0x7FFFFFFF


def ds(variant, sub, seed, k, threads, mode="jitter", cpu=None, timeout=400, **kw):
    wd, to = _limits()
    args = dict(sub=sub, seed=S(seed, k), threads=threads, mode=mode, watchdog_s=wd)
    args.update(kw)
    return Run(variant, BINARIES["h_ds"], args, cpu=cpu or min(threads, 8), timeout=max(timeout, to), tag=sub)


def c02(tier, seed):
    q = tier == "quick"
    runs = []
    k = 0
    # raw mode: no hook, no stamps -> real store-buffer behaviour (Chase-Lev fence), conservation oracle
    for thr in ([4, 8, 16] if q else [2, 3, 4, 8, 12, 16]):
        for shape in (0, 1, 2):
            k += 1
            runs.append(ds("mon", "wsd", seed, k, thr, mode="nohook", rounds=20 if q else 200, ops=100000 if q else 200000, shape=shape))
    # stamped histories under perturbation: owner-mirror, empty rule, steal order
    modes = [("jitter", {}), ("stall", dict(stall_point="WSD_POP_MID", stall_us_lo=20, stall_us_hi=300, stall_every=3)),
             ("stall", dict(stall_point="WSD_STEAL_PRE_CAS", stall_us_lo=20, stall_us_hi=300, stall_every=5)),
             ("stall", dict(stall_point="WSD_GROW", stall_us_lo=200, stall_us_hi=2000)), ("skew", {})]
    for thr in ([3, 8] if q else [2, 3, 5, 8, 16]):
        for (m, extra) in modes:
            k += 1
            runs.append(ds("mon", "wsd", seed, k, thr, mode=m, rounds=30 if q else 300, ops=6000 if q else 12000, **extra))
    # growth race: thousands of short deque lives, thieves released exactly when the owner performs the growing push
    for thr in ([3, 6] if q else [2, 3, 6, 12]):
        for (m, extra) in [("nohook", dict(hist=1)), ("stall", dict(stall_point="WSD_GROW", stall_us_lo=20, stall_us_hi=200)),
                           ("stall", dict(stall_point="WSD_GROW", stall_us_lo=20, stall_us_hi=200, preempt=1, preempt_us=40)),
                           ("nohook", dict(hist=1, preempt=1, preempt_us=40))]:
            k += 1
            runs.append(ds("mon", "wsd", seed, k, thr, mode=m, shape=3, rounds=3000 if q else 30000, ops=300, **extra))
    for thr in ([4] if q else [2, 8, 16]):
        k += 1
        runs.append(ds("asan", "wsd", seed, k, thr, mode="jitter", rounds=20 if q else 150, ops=6000))
        k += 1
        runs.append(ds("dbg", "wsd", seed, k, thr, mode="jitter", rounds=20 if q else 150, ops=6000))
    return dict(
        runs=runs,
        rule="a case = one deque life (round): one owner doing push/pop bursts of a seeded shape (0: length 0-2, 1: grow past "
             "256 and drain, 2: mixed) with 0..threads-1 thieves, unique entries; or one whole-runtime program. Oracles: "
             "exactly-once (atomic taken-flags), no phantom, no loss after the owner saw EMPTY, owner pop returns the newest "
             "entry it still holds, EMPTY/ABORT only if every remaining entry was taken by a steal invoked earlier, steals in "
             "age order. distinct_nontrivial = number of distinct (thread,op,result) invocation-order sequences among stamped "
             "histories in which operations of different threads overlapped, plus distinct (shape,thieves,outcome-class) "
             "tuples of raw rounds.",
        min_events={"wsd_pop_abort_lost_last_element_race": 1, "wsd_steal_abort": 1, "WSD_GROW": 1, "wsd_owner_found_empty_after_thieves_took_all": 1},
        assumptions=ASSUME_COMMON + ["raw (hook-free) runs rely on real hardware reordering to expose missing fences"],
    )



def ds_plan(tier, seed, subs, stall_points, thread_sets, rounds_q=60, rounds_t=600, ops=3000, extra=None):
    """generic plan for a container property: raw + jitter + skew + targeted stalls, mon/asan/dbg variants"""
    q = tier == "quick"
    runs = []
    k = 0
    rounds = rounds_q if q else rounds_t
    for sub in subs:
        for thr in (thread_sets[0] if q else thread_sets[1]):
            for mode in ("nohook", "jitter", "skew"):
                k += 1
                runs.append(ds("mon", sub, seed, k, thr, mode=mode, hist=1, rounds=rounds, ops=ops, **(extra or {})))
            for sp in stall_points:
                k += 1
                runs.append(ds("mon", sub, seed, k, thr, mode="stall", stall_point=sp, stall_us_lo=30, stall_us_hi=600,
                               stall_every=7, rounds=max(10, rounds // 3), ops=ops, **(extra or {})))
            # signal-driven preemption at arbitrary instructions, with and without hooks
            for mode in ("nohook", "jitter"):
                k += 1
                runs.append(ds("mon", sub, seed, k, thr, mode=mode, hist=1, preempt=1, rounds=rounds, ops=ops, **(extra or {})))
        for thr in ([thread_sets[0][-1]] if q else thread_sets[1][-2:]):
            k += 1
            runs.append(ds("asan", sub, seed, k, thr, mode="jitter", rounds=max(10, rounds // 3), ops=ops, **(extra or {})))
            for sp in stall_points:
                k += 1
                runs.append(ds("asan", sub, seed, k, thr, mode="stall", stall_point=sp, stall_us_lo=30, stall_us_hi=600,
                               stall_every=7, rounds=max(10, rounds // 4), ops=ops, **(extra or {})))
            k += 1
            runs.append(ds("dbg", sub, seed, k, thr, mode="jitter", rounds=max(10, rounds // 3), ops=ops, **(extra or {})))
    return runs


HIST_RULE = ("a case = one stamped history (round) of a fresh structure: seeded role split over the worker threads, unique values, "
             "invocation/return stamps from one global atomic counter, final single-threaded drain. distinct_nontrivial = number of "
             "distinct (thread,op,result) invocation-order sequences among histories in which operations of different threads overlapped. ")


def c13(tier, seed):
    return dict(runs=ds_plan(tier, seed, ["mpmc"], ["MPMC_POP_PRE_CAS", "MPMC_PUSH_MID", "HP_SCAN_SNAPSHOT", "HP_PUBLISH_PRE", "HP_RELEASED"], ([2, 4, 8], [2, 3, 4, 8, 16])),
                rule=HIST_RULE + "Oracles: no phantom, exactly-once, no loss, real-time FIFO (definite pattern), EMPTY only if no value was inside "
                "for the whole call or a push overlapped; nodes reclaimed by the hazard GC are freed (ASan) or poisoned and recycled at once.",
                min_events={"mpmc_nodes_reclaimed_by_hazard_gc": 100, "mpmc_pop_empty": 1, "histories_with_overlap": 10},
                assumptions=ASSUME_COMMON)


def c14(tier, seed):
    runs = ds_plan(tier, seed, ["hazard"], ["HP_SCAN_SNAPSHOT", "H100", "HP_PUBLISH_PRE", "HP_RELEASED"], ([2, 4, 8], [2, 3, 4, 8, 16]), ops=4000)
    # the MPMC FIFO is the structure built on it: "no structure built on it dereferences a reclaimed node"
    runs += ds_plan(tier, seed + 17, ["mpmc"], ["HP_SCAN_SNAPSHOT", "HP_PUBLISH_PRE", "HP_RELEASED"], ([8], [4, 16]), rounds_q=30, rounds_t=300)
    # focused publish/validate race (store-load fence): one writer, one reader, one slot, one pointer per record -> the
    # writer scans at every 4th retirement; raw mode, no harness delays, real store-buffer behaviour
    q = tier == "quick"
    for i in range(4 if q else 12):
        runs.append(ds("mon", "hazard", seed + 31, 400 + i, 2, mode="nohook", hist=0, hpk=1, slots=1, tight=1, rounds=60 if q else 400, ops=60000))
    return dict(runs=runs,
                rule="a case = one round: seeded split into writers (unlink from 8 shared slots + hazard_pointer_free) and readers (publish, "
                "re-validate, hold 1..K validated protections, release), K fixed per process (1..4), late-joining records, shuffled node "
                "addresses. Oracles: GC callback never sees a node with a validated protection (ghost count) and readers never see the "
                "canary die; retired_count < threshold after every retirement; thresholds == 2*N*K at quiescence; after readers stop, "
                "'threshold' further retirements reclaim everything retired before. distinct_nontrivial = distinct (writers, late joiners, K, "
                "records) tuples plus overlapping MPMC histories.",
                min_events={"hp_validated_protections": 1000, "hp_reclaimed": 1000, "hp_nodes_still_retired_at_round_end": 1, "HP_SCAN_SNAPSHOT": 10},
                assumptions=ASSUME_COMMON)


def tsan_any(runs, sub, seed, k0, thread_list, rounds, ops=1500):
    """TSan with the 'any report' rule for containers written purely with C11 atomics (clean on the unmodified tree)"""
    for i, thr in enumerate(thread_list):
        for j, mode in enumerate(("nohook", "jitter")):
            r = ds("tsan", sub, seed, k0 + 2 * i + j, thr, mode=mode, hist=1, rounds=rounds, ops=ops, timeout=900)
            r.tsan_rule = "any"
            runs.append(r)


def c15(tier, seed):
    runs15 = ds_plan(tier, seed, ["mpsc", "spsc", "mpscr"], ["MPSC_MID", "SPSC_MID"], ([2, 5, 8], [2, 3, 5, 8, 16]))
    q = tier == "quick"
    tsan_any(runs15, "spsc", seed, 900, (2,) if q else (2, 2), 8 if q else 60)
    tsan_any(runs15, "mpscr", seed, 920, (4,) if q else (3, 8), 8 if q else 60)
    return dict(runs=runs15,
                rule=HIST_RULE + "Oracles: no phantom, exactly-once, no loss, per-producer order in the consumer's program order, real-time FIFO "
                "for the strict queues, EMPTY only if nothing was inside for the whole call or a push overlapped.",
                min_events={"q_pop_empty": 1, "q_nodes_recycled": 100, "histories_with_overlap": 10, "MPSC_MID": 1, "SPSC_MID": 1},
                assumptions=ASSUME_COMMON + ["single consumer (worker 0), one producer per lane for the relaxed queue"])


def c16(tier, seed):
    return dict(runs=ds_plan(tier, seed, ["ring"], ["RB_PUSH_MID", "RB_POP_MID"], ([2, 4, 8], [2, 3, 4, 8, 16]), rounds_q=40, rounds_t=400),
                rule=HIST_RULE + "Capacities 2..64 (seeded). Oracles: sequential prefix (fill, overflow, drain, underflow), no phantom, exactly-once, "
                "no loss, real-time FIFO, occupancy lower bound <= capacity, and the exact rule for a failed try-operation that nothing overlaps.",
                min_events={"ring_push_fail": 1, "ring_pop_fail": 1, "ring_laps_total": 100, "RB_PUSH_MID": 1, "RB_POP_MID": 1},
                assumptions=ASSUME_COMMON + ["2^64 index overflow is unreachable and not simulated"])


def c17(tier, seed):
    return dict(runs=ds_plan(tier, seed, ["wq"], ["WQ_PUSH_MID", "WQ_RETIRE_PRE_SUB", "MPSC_MID"], ([2, 4, 8], [2, 3, 4, 8, 16])),
                rule=HIST_RULE + "Every thread pushes; whoever is told START_WORKING calls get_work until EMPTY; no harness drain. Oracles: "
                "exactly-once hand-out, no stranded item at the end, EMPTY only if every push that had returned was already handed out, no two "
                "sessions [START returned, final get_work invoked] intersect.",
                min_events={"wq_start_working": 10, "wq_sessions_with_items_of_other_pushers": 1, "WQ_RETIRE_PRE_SUB": 1},
                assumptions=ASSUME_COMMON)



def fb(binary, variant, sub, seed, k, threads, mode="jitter", timeout=400, **kw):
    # 10^8 context switches without a single completed client operation = livelock (logical steps, not time; 8*10^6 was
    # reached by yield-polling fibers while a stalled kernel thread was descheduled on the oversubscribed machine)
    wd, to = _limits()
    args = dict(sub=sub, seed=S(seed, k), threads=threads, mode=mode, livelock_hits=100000000, watchdog_s=wd)
    args.update(kw)
    return Run(variant, BINARIES[binary], args, cpu=min(threads, 8), timeout=max(timeout, to), tag=sub)


RT_STALLS = ["WAIT_MPSC_PRE_PUSH", "MPSC_MID", "SWITCH_PRE", "SWITCH_POST", "SCHEDULED", "MAINT_PUBLISH"]
MUTEX_STALLS = RT_STALLS + ["MUTEX_UNLOCK_MID"]
COND_STALLS = RT_STALLS + ["COND_SIGNAL_MID", "MUTEX_UNLOCK_MID"]
RW_STALLS = RT_STALLS + ["RW_HANDOFF"]


def fb_plan(tier, seed, binary, sub, stalls, trials_q, trials_t, threads_q=(1, 2, 4, 16), threads_t=(1, 2, 3, 4, 8, 16), extra=None,
            stall_every=5, tsan=False, pinned=True, tsan_judged=True, long_stalls=()):
    """generic plan for a fiber-runtime scenario family"""
    q = tier == "quick"
    extra = extra or {}
    runs = []
    k = 0
    trials = trials_q if q else trials_t
    for thr in (threads_q if q else threads_t):
        for mode in ("monitor", "jitter", "skew"):
            k += 1
            runs.append(fb(binary, "mon", sub, seed, k, thr, mode=mode, trials=trials, **extra))
    for i, sp in enumerate(stalls):
        for thr in ((threads_q[1 + i % (len(threads_q) - 1)],) if q else threads_t[1:]):
            k += 1
            runs.append(fb(binary, "mon", sub, seed, k, thr, mode="stall", stall_point=sp, stall_every=stall_every, stall_us_lo=50,
                           stall_us_hi=1500, trials=max(3, trials // 3), **extra))
    for thr in ((4,) if q else (2, 8, 16)):
        k += 1
        runs.append(fb(binary, "asan", sub, seed, k, thr, mode="jitter", trials=max(3, trials // 3), **extra))
        k += 1
        runs.append(fb(binary, "dbg", sub, seed, k, thr, mode="jitter", trials=max(3, trials // 3), **extra))
    # long-lived windows under ASan: a stalled thread keeps using an object that the others meanwhile finish with and free
    for i, sp in enumerate(stalls):
        if q and i % 2 == 0 and len(stalls) > 2:
            continue
        k += 1
        runs.append(fb(binary, "asan", sub, seed, k, 4, mode="stall", stall_point=sp, stall_every=stall_every, stall_us_lo=50, stall_us_hi=1500,
                       trials=max(3, trials // 4), **extra))
    # signal-driven preemption of the kernel threads at arbitrary instructions (windows without hook points)
    for thr in ((threads_q[-2], threads_q[-1]) if q else threads_t[2:]):
        for mode in ("monitor", "jitter"):
            k += 1
            runs.append(fb(binary, "mon", sub, seed, k, thr, mode=mode, preempt=1, trials=trials, **extra))
    # a waiter held between announcing itself and becoming visible to its waker for far longer than any plausible bound on the wait
    # for it (1.2..2 s, a handful of times per run): however long it takes, the wake-up must reach it
    for i, sp in enumerate(long_stalls):
        for thr in ((2 + 2 * (i % 2),) if q else (2, 4, 8)):
            k += 1
            runs.append(fb(binary, "mon", sub, seed, k, thr, mode="stall", stall_point=sp, stall_every=3000 if q else 1500, stall_us_lo=1200000,
                           stall_us_hi=2000000, trials=max(3, trials // 3), **extra))
    if tsan:
        for thr in (((2, 4) if tsan_judged else (4,)) if q else (2, 4, 8)):
            k += 1
            r_ = fb(binary, "tsan", sub, seed, k, thr, mode="monitor", trials=max(3, trials // (2 if tsan_judged else 4)), timeout=900, **extra)
            # payload visibility is a verdict only where the property statement promises it (C03, C11); elsewhere the
            # reports are tallied in the evidence
            r_.tsan_judged = tsan_judged
            runs.append(r_)
    if pinned and not q:
        for thr in (4, 16):
            k += 1
            runs.append(fb(binary, "pinned", sub, seed, k, thr, mode="jitter", trials=trials, **extra))
    return runs


TRIAL_RULE = ("a case = one trial: a fresh primitive and a seeded population of fibers (counts, operation mix, yields/sleeps) run to completion on "
              "1..16 kernel threads under one perturbation mode (monitor, jitter, priority skew, or a targeted stall at one window point); the ghost "
              "monitor (running-on map, pending wake-ups, quiescence) watches every context switch of the trial. ")


def c03(tier, seed):
    d = _c03(tier, seed)
    q = tier == "quick"
    # a locker held between announcing itself and enqueueing for far longer than any plausible bound on the wait for it (1.2..2 s, a handful of times per run),
    # while the owner releases through the deferred unlock: however long it takes, the release must reach that locker
    for j, thr in enumerate((2, 4) if q else (2, 3, 4, 8)):
        d["runs"].append(fb("h_sync", "mon", "mutex", seed + 31, 80 + j, thr, mode="stall", stall_point="WAIT_MPSC_PRE_PUSH", stall_every=3000 if q else 1500,
                            stall_us_lo=1200000, stall_us_hi=2000000, trials=8 if q else 40, livelock_prop="C03"))
    return d


def _c03(tier, seed):
    return dict(runs=fb_plan(tier, seed, "h_sync", "mutex", MUTEX_STALLS, 24, 150, tsan=True, extra=dict(livelock_prop="C03")),
                rule=TRIAL_RULE + "Oracles: occupancy counter (atomic) must be 0 on entry, plain payload pair pa==pb and section count (TSan judges payload "
                "races), trylock never context-switches, mutex counter back to 1, stranded locker at logical quiescence. distinct_nontrivial = distinct "
                "acquisition-order hashes among trials with at least one contended hand-off. Trial shapes rotate: mixed lock/trylock sections; the same with owners "
                "that give the mutex up inside fiber_cond_wait (deferred unlock); tight lock/trylock hammer; hand-off pairs (300..800 rounds of owner -> sole "
                "announced waiter through the deferred unlock).",
                min_events={"mutex_contended_acquisitions": 50, "lib_wake_mpsc_spin_count": 1, "mutex_trylock_fail": 1, "saving_skips": 1,
                            "mutex_released_by_deferred_unlock": 500, "mutex_handoff_trials": 4},
                assumptions=ASSUME_COMMON)


def c05(tier, seed):
    return dict(runs=fb_plan(tier, seed, "h_sync", "cond", COND_STALLS, 30, 200, tsan=True, tsan_judged=False, extra=dict(livelock_prop="C05"),
                             long_stalls=("WAIT_MPSC_PRE_PUSH",)),
                rule=TRIAL_RULE + "Credit ledger under the user mutex: signal while a waiter is registered gives one credit, broadcast one per registered "
                "waiter; every return from fiber_cond_wait must own the mutex and consume a credit; at the end credits==0 and nobody is blocked "
                "(quiescence => lost signal). No predicate loops. distinct_nontrivial = distinct (waiters, signallers, waits, mode, window-hit) tuples.",
                min_events={"cond_signals_with_waiter": 50, "cond_broadcasts_with_waiters": 10, "lib_wake_mpsc_spin_count": 1},
                assumptions=ASSUME_COMMON)


def c06(tier, seed):
    runs06 = fb_plan(tier, seed, "h_sync", "sem", ["MAINT_PUBLISH", "MPMC_PUSH_MID", "WAIT_MPMC", "SWITCH_PRE", "SWITCH_POST", "SCHEDULED", "SEM_POST_MID"], 48, 200, tsan=True, tsan_judged=False, extra=dict(livelock_prop="C06"),
                     long_stalls=("WAIT_MPMC",))
    for r in runs06:
        if r.variant == "tsan":
            r.args["mutexlike"] = 1
    return dict(runs=runs06,
                rule=TRIAL_RULE + "Initial values {0,1,2,7}; holder pattern (occupancy <= initial) or producer/consumer. Oracles: successes <= initial + posts "
                "begun at every success, trywait never context-switches, final value == initial + posts - successes, stranded waiter at quiescence.",
                min_events={"sem_wait_returned": 100, "sem_trywait_fail": 1, "sem_posts": 100},
                assumptions=ASSUME_COMMON)


def c07(tier, seed):
    return dict(runs=fb_plan(tier, seed, "h_sync", "rwlock", RW_STALLS, 45, 200, tsan=True, tsan_judged=False, extra=dict(livelock_prop="C07"),
                             long_stalls=("WAIT_MPSC_PRE_PUSH",)),
                rule=TRIAL_RULE + "Oracles: writer alone (atomic occupancy of readers/writers on entry and exit), shared data unchanged during a read "
                "section, try variants never context-switch, state word 0 at the end, stranded waiter at quiescence.",
                min_events={"rw_read_sections_shared_with_other_readers": 10, "rw_write_sections": 50, "rw_trywr_fail": 1, "lib_wake_mpsc_spin_count": 1},
                assumptions=ASSUME_COMMON)


def c12(tier, seed):
    q = tier == "quick"
    runs = fb_plan(tier, seed, "h_sync", "barrier", ["WAIT_MPSC_PRE_PUSH", "MPSC_MID", "SWITCH_PRE", "SCHEDULED", "BARRIER_LAST"], 30, 120)
    # volume under signal-driven preemption: tens of thousands of back-to-back rounds of small barriers (windows between
    # the arrival counter update and the decisions derived from it have no hook point)
    for i, thr in enumerate((4, 8, 8, 16) if q else (2, 4, 8, 8, 16, 16)):
        runs.append(fb("h_sync", "mon", "barrier", seed + 5, 800 + i, thr, mode="monitor", preempt=1, preempt_us=60, trials=6 if q else 40,
                       rounds=20000, maxcount=16, livelock_prop="C12"))
    return dict(runs=runs,
                rule=TRIAL_RULE + "Counts {1,2,3,4,7,16,64}, up to 300 back-to-back rounds by the same fibers. Oracles: on return from wait #k exactly "
                "'count' fibers have entered round k, one serial fiber per round, everybody returns (quiescence).",
                min_events={"barrier_rounds": 500},
                assumptions=ASSUME_COMMON)


def c18(tier, seed):
    return dict(runs=fb_plan(tier, seed, "h_sync", "spin", ["SPIN_TICKET", "CPU_RELAX"], 20, 60, threads_q=(2, 4, 8), threads_t=(2, 3, 4, 6, 8),
                             extra=dict(livelock_prop="C18", livelock_hits=2000000000000, iters=150), stall_every=50, tsan=True, tsan_judged=False),
                rule=TRIAL_RULE + "Spinlock used from fibers that never yield while holding it; counters preset just below 2^32. Oracles: occupancy, "
                "now-serving values seen by holders are consecutive (mod 2^32) and equal the ticket taken, trylock neither spins nor switches, plain "
                "payload (TSan), ticket==users at the end.",
                min_events={"spin_lock_calls_that_spun": 100, "spin_trylock_fail": 1, "spin_ticket_wraparounds": 1},
                assumptions=ASSUME_COMMON + ["nobody yields while holding a spinlock (documented contract)"])


def c10(tier, seed):
    q = tier == "quick"
    runs = []
    k = 0
    for thr in ((1, 1, 2, 4, 16) if q else (1, 1, 1, 2, 3, 4, 8, 16)):
        for mode in ("monitor", "jitter"):
            k += 1
            runs.append(fb("h_yield", "mon", "yield", seed, k, thr, mode=mode, trials=(14 if thr in (2, 4) else 8) if q else 40, livelock_prop="C10",
                           **({"long": 4000} if mode == "jitter" else {})))
    for thr in ((1, 4) if q else (1, 2, 16)):
        k += 1
        runs.append(fb("h_yield", "asan", "yield", seed, k, thr, mode="monitor", trials=6, livelock_prop="C10"))
        k += 1
        runs.append(fb("h_yield", "dbg", "yield", seed, k, thr, mode="monitor", trials=6, livelock_prop="C10"))
    return dict(runs=runs,
                rule="a case = one trial: seeded mix of forever-yielding fibers, victims that must run L times (L alternates 500 / 20000), yield-polling "
                "loops waiting for flags set by later-created fibers, blockers (mutex, sleep) and creators, on 1 kernel thread (no stealing to mask "
                "starvation) and on N. Oracle (online, ghost): number of switches a thread makes to other fibers while fiber X sits in its run queues "
                "<= 2 x (most fibers alive) + 2 (+64 with stealing); maximum compared between short and long loops; every polling loop terminates; "
                "yields that return without a switch while the same ready fiber sits in the thread's own queue (B+1 and 2B+2 looks); a ready fiber "
                "that is never run while its scheduler makes millions of switches (three looks).",
                min_events={"yield_victim_runs": 1000, "yield_polling_loops_terminated": 1, "yield_fibers_created_midrun": 1},
                assumptions=ASSUME_COMMON)


ALL_RT_STALLS = ["SWITCH_PRE", "SWITCH_POST", "MAINT_PUBLISH", "SCHEDULED", "WAIT_MPSC_PRE_PUSH", "MPSC_MID", "SIGNAL_WAIT_REGISTERED",
                 "SLEEP_REGISTERED", "FD_WAIT_REGISTERED", "WAIT_MPMC", "SET_AND_WAIT", "STEAL", "SAVING_SKIP", "JOIN_CLAIMED", "COMPLETION_CLAIMED",
                 "MUTEX_UNLOCK_MID", "COND_SIGNAL_MID"]


def c01(tier, seed):
    runs = fb_plan(tier, seed, "h_rt", "rt", ALL_RT_STALLS, 6, 40, extra=dict(livelock_prop="C01"), stall_every=9)
    # the deferred-unlock path of cond wait / multi-channel wait (a switch while a switch is being completed)
    q = tier == "quick"
    k = 700
    for sp in ("MPSC_MID", "WAIT_MPSC_PRE_PUSH", "SWITCH_PRE"):
        for thr in ((4, 8) if q else (2, 4, 8, 16)):
            k += 1
            runs.append(fb("h_sync", "mon", "cond", seed, k, thr, mode="stall", stall_point=sp, stall_every=5, stall_us_lo=50, stall_us_hi=1500,
                           trials=10 if q else 60, livelock_prop="C01"))
            k += 1
            runs.append(fb("h_chan", "mon", "multi", seed, k, thr, mode="stall", stall_point=sp, stall_every=5, stall_us_lo=50, stall_us_hi=1500,
                           trials=4 if q else 30, livelock_prop="C01"))
    # a sleeper whose lock is given up before its switch has completed is only reached by the timer after one or two ticks
    for thr in ((2, 4) if q else (2, 4, 8)):
        k += 1
        runs.append(fb("h_sleep", "mon", "sleep", seed, k, thr, mode="stall", stall_point="SLEEP_REGISTERED", stall_every=5, stall_us_lo=4000, stall_us_hi=16000,
                       trials=4 if q else 20, scenario=5, livelock_prop="C01"))
    # finished-first joins under ASan with the joiner held right after it has handed the finished fiber back
    for sp in ("SCHEDULED", "JOIN_CLAIMED"):
        k += 1
        for thr in ((4, 8) if q else (3, 4, 8, 16)):
            k += 1
            runs.append(fb("h_join", "asan", "join", seed, k, thr, mode="stall", stall_point=sp, stall_every=2, stall_us_lo=50, stall_us_hi=1500,
                           trials=200 if q else 800, drivers=8, scenario=0, livelock_prop="C01"))
    return dict(runs=runs,
                rule="a case = one seeded random program: 8..120 worker fibers each running 10..60 random actions from a 15-entry menu (yield, mutex, "
                "semaphore post/wait, rwlock, cond ticket, multi-channel, bounded/unbounded channel sends to single receivers, create+join, "
                "create+detach, sleep, socketpair echo, barrier cliques, tryjoin polling, try-locks) on 1..16 kernel threads; every blocking action has "
                "its releaser (give before take). Oracles (online ghost monitor at every context switch): the fiber switched to is not running "
                "anywhere (its previous suspension completed), is not destroyed, consumes exactly one pending wake-up; nobody is reclaimed while "
                "running/queued/unfinished; plus library asserts, ASan on heap stacks/fiber_t, logical quiescence. distinct_nontrivial = distinct "
                "(program shape, observed early-wake/steal/skip counts) signatures.",
                min_events={"switches": 100000, "migrations": 100, "steals": 50, "saving_skips": 1, "wakeups_before_switch_completed": 1,
                            "act_cond_ticket": 10, "act_socketpair_io": 10, "act_sleep": 10, "act_create_join": 10},
                assumptions=ASSUME_COMMON + ["out-of-contract use is not generated (no handle use after a successful join/detach of a finished fiber)"])


def c02_full(tier, seed):
    d = c02(tier, seed)
    q = tier == "quick"
    k = 500
    # (b) whole runtime: pending-wake-up accounting + quiescence on the mixed programs and a spawn/yield/steal storm
    for thr in ((1, 3, 8, 16) if q else (1, 2, 3, 4, 8, 12, 16)):
        for mode in ("monitor", "jitter"):
            k += 1
            d["runs"].append(fb("h_rt", "mon", "rt", seed, k, thr, mode=mode, trials=4 if q else 30, livelock_prop="C02", io=0))
    for sp in ("STEAL", "SCHEDULED", "SAVING_SKIP", "WSD_POP_MID", "WSD_STEAL_PRE_CAS"):
        k += 1
        d["runs"].append(fb("h_rt", "mon", "rt", seed, k, 8, mode="stall", stall_point=sp, stall_every=9, stall_us_lo=50, stall_us_hi=800,
                            trials=3 if q else 20, livelock_prop="C02", io=0))
    # join/finish races with steals in the clear-or-wait window: a wake-up pushed through a stale manager lands on another
    # thread's deque (non-owner push) or is lost
    for sp in ("SET_AND_WAIT", "MAINT_PUBLISH", "STEAL", "WSD_POP_MID"):
        for thr in ((8,) if q else (4, 8, 16)):
            k += 1
            d["runs"].append(fb("h_join", "mon", "join", seed, k, thr, mode="stall", stall_point=sp, stall_every=2, stall_us_lo=50, stall_us_hi=400,
                                trials=60 if q else 400, drivers=12, livelock_prop="C02"))
    k += 1
    d["runs"].append(fb("h_join", "mon", "join", seed, k, 8, mode="jitter", trials=80 if q else 600, drivers=12, livelock_prop="C02"))
    # wake-ups that come from the event side (timer, descriptor readiness): the waiter's lock must stay held until its switch has
    # completed, otherwise the entry is taken and run while the fiber is still running where it suspends itself
    for thr in ((2, 4) if q else (2, 4, 8, 16)):
        k += 1
        d["runs"].append(fb("h_sleep", "mon", "sleep", seed, k, thr, mode="stall", stall_point="SLEEP_REGISTERED", stall_every=5, stall_us_lo=4000, stall_us_hi=16000,
                            trials=4 if q else 20, scenario=5, livelock_prop="C02"))
        k += 1
        d["runs"].append(fb("h_io", "mon", "io", seed, k, thr, mode="stall", stall_point="FD_WAIT_REGISTERED", stall_every=3, stall_us_lo=50, stall_us_hi=1500,
                            trials=16 if q else 100, big=0, livelock_prop="C02", timeout=600))
    d["min_events"].update({"steals": 50, "rt_programs": 4, "join_trials": 500, "SLEEP_REGISTERED": 100, "FD_WAIT_REGISTERED": 100})
    return d


def c09(tier, seed):
    q = tier == "quick"
    runs = []
    k = 0
    for thr in ((1, 2, 4, 16) if q else (1, 2, 3, 4, 8, 16)):
        for mode in ("monitor", "jitter"):
            k += 1
            runs.append(fb("h_sleep", "mon", "sleep", seed, k, thr, mode=mode, trials=10 if q else 60, livelock_prop="C09"))
    for sp in ("SCHEDULED", "SLEEP_REGISTERED", "SWITCH_PRE", "STEAL", "TIMER_TICKS"):
        for thr in ((4,) if q else (2, 8, 16)):
            k += 1
            runs.append(fb("h_sleep", "mon", "sleep", seed, k, thr, mode="stall", stall_point=sp, stall_every=3, stall_us_lo=50, stall_us_hi=1500,
                           trials=6 if q else 30, livelock_prop="C09"))
            k += 1
            runs.append(fb("h_sleep", "asan", "sleep", seed, k, thr, mode="stall", stall_point=sp, stall_every=3, stall_us_lo=50, stall_us_hi=1500,
                           trials=5 if q else 20, scenario=1, livelock_prop="C09"))
    # stalls longer than two timer ticks (5 ms each) between a sleeper's registration and the completion of its switch: the timer side
    # gets the chance to wake a sleeper whose suspension is still in progress
    for sp in ("SLEEP_REGISTERED", "SWITCH_PRE"):
        for thr in ((2, 4) if q else (2, 4, 8, 16)):
            k += 1
            runs.append(fb("h_sleep", "mon", "sleep", seed, k, thr, mode="stall", stall_point=sp, stall_every=5, stall_us_lo=4000, stall_us_hi=16000,
                           trials=4 if q else 20, livelock_prop="C09"))
    # every poller delayed (8..30 ms) right after it has consumed ticks from the timer, while many fibers register one- and two-tick sleeps
    # (since the repair the point lies inside the sleep lock, where a stall only serialises everybody: few threads are enough, and
    # many of them would turn the ticket lock into a convoy of stalled holders)
    for thr in ((2, 3, 4) if q else (2, 2, 3, 3, 4, 4)):
        k += 1
        runs.append(fb("h_sleep", "mon", "sleep", seed, k, thr, mode="stall", stall_point="TIMER_READ", stall_every=1, stall_us_lo=8000, stall_us_hi=30000,
                       trials=12 if q else 40, scenario=5, livelock_prop="C09"))
    # timer expirations reported late (timer interrupt delayed, vCPU stalled): emulated at the system-call boundary by failing every
    # 2nd / 3rd read(2) of each thread with EAGAIN (strace fault injection) - the ticks stay in the timerfd and a later read reports them
    # all at once. A sleep registered against the lagging tick base must still last as long as requested.
    extra_cov = {}
    if vplib.strace_inject_available():
        for thr, sc, when in ((1, 2, "2+2"), (2, 2, "3+3"), (2, 5, "2+2"), (4, 5, "3+3")) if q else ((1, 2, "2+2"), (1, 2, "3+3"), (2, 2, "2+2"), (2, 2, "3+3"), (2, 5, "2+2"),
                                                                                                   (4, 5, "3+3"), (8, 5, "2+2"), (4, 0, "3+3"), (2, 1, "2+2")):
            k += 1
            r_ = fb("h_sleep", "mon", "sleep", seed, k, thr, mode="monitor", trials=4 if q else 16, scenario=sc, livelock_prop="C09")
            r_.wrapper = ["strace", "-f", "-qq", "-o", "@LOG@", "-e", "trace=read", "-e", "inject=read:error=EAGAIN:when=" + when]
            r_.tag = "late-ticks"
            runs.append(r_)
        extra_cov["late_tick_emulation"] = "strace fault injection on read(2) active in %d runs" % sum(1 for r in runs if r.tag == "late-ticks")
    else:
        extra_cov["late_tick_emulation"] = "skipped: strace/ptrace not available in this environment"
    # arguments at the edges of their types: one-second-class requests around the micro/nanosecond carries (judged by duration) and
    # requests of hours up to 2^32-1 seconds (any return is early; still asleep when the process ends)
    for thr in ((4,) if q else (1, 4, 16)):
        k += 1
        runs.append(fb("h_sleep", "mon", "sleep", seed, k, thr, mode="monitor", trials=2, boundary=1, livelock_prop="C09"))
    for thr in ((2, 8) if q else (1, 4, 16)):
        k += 1
        runs.append(fb("h_sleep", "asan", "sleep", seed, k, thr, mode="jitter", trials=6 if q else 30, livelock_prop="C09"))
        k += 1
        runs.append(fb("h_sleep", "dbg", "sleep", seed, k, thr, mode="jitter", trials=6 if q else 30, livelock_prop="C09"))
    if not q:
        k += 1
        runs.append(fb("h_sleep", "mon", "sleep", seed, k, 4, mode="monitor", trials=6, scenario=4, sleep_seconds=1, livelock_prop="C09"))
    return dict(extra_cov=extra_cov, runs=runs,
                rule="a case = one trial of one scenario: (0) 1..200 sleepers with durations {0,1us,999us,1ms,4.9ms,5ms,7ms,12ms,20ms} through "
                "fiber_sleep/usleep/nanosleep next to a ticker, (1) a same-deadline cohort whose members exit right after waking (their stacks, "
                "which hold the sleeper nodes, are reclaimed), (2) every kernel thread CPU-bound for 60-300 ms before usleep(20ms) (stale tick), "
                "(3) every thread always busy with yielding fibers, (4) long sleeps, (5) 20..170 fibers repeating 0.2..4.9 ms sleeps (registrations at every "
                "phase of the tick, with pollers delayed after consuming ticks); scenarios 2 and 5 again with timer expirations reported late "
                "(every 2nd/3rd read(2) failed with EAGAIN by strace fault injection). Oracles: monotonic elapsed >= requested (sound under load), "
                "one registration and one sleep wake-up per call (ghost), ticker progress on the same thread, ghost/ASan for the sleeper nodes, "
                "quiescence/livelock for sleepers never resumed.",
                min_events={"sleep_calls": 500, "sleep_same_tick_cohort_fibers": 10, "sleep_after_cpu_bound_phase": 1,
                            "sleep_with_every_thread_busy_yielding": 1, "sleep_then_exit_immediately": 10, "sleep_short_repeated": 2000, "TIMER_READ": 100, "sleep_boundary_requests": 12,
                            "sleep_very_long_requests_still_asleep_at_exit": 25},
                assumptions=ASSUME_COMMON + ["CLOCK_MONOTONIC brackets each call, so load can only enlarge the measured span"])


def c04(tier, seed):
    q = tier == "quick"
    runs = fb_plan(tier, seed, "h_join", "join", ["MAINT_PUBLISH", "SCHEDULED", "SET_AND_WAIT", "SWITCH_PRE", "SWITCH_POST", "STEAL", "JOIN_CLAIMED", "COMPLETION_CLAIMED"], 120, 500,
                   extra=dict(livelock_prop="C04", drivers=8), stall_every=3)
    k = 900
    for sc in range(8):
        k += 1
        runs.append(fb("h_join", "mon", "join", seed, k, 4 if q else 8, mode="jitter", trials=30 if q else 300, scenario=sc, livelock_prop="C04"))
    # few trial drivers on many kernel threads: the idle threads steal the actors, so the two users of a handle really run in
    # parallel (with as many drivers as threads everything stays on the thread that created it)
    for sc in (3, 5):
        for thr, drv in (((8, 3),) if q else ((8, 3), (16, 4), (4, 1))):
            k += 1
            runs.append(fb("h_join", "mon", "join", seed, k, thr, mode="monitor", trials=3000 if q else 20000, drivers=drv, scenario=sc, livelock_prop="C04"))
    return dict(runs=runs,
                rule="a case = one scenario trial: one target fiber (random pre-delay, unique return token, gated alive when a second use of its "
                "handle is generated) and 1-2 actors with random delays, 8 trial drivers running concurrently; classes S1 join x finish, S2 repeated "
                "tryjoin x finish, S3 detach x finish, S4 two joiners (join/tryjoin) racing, S5 join+tryjoin after detach, S6 detach while a joiner "
                "is blocked, S7 double detach, S8 join of a running fiber by a fiber whose earlier read was ended by close(). Oracles: success only after the target's last statement and with its token, at most one success, "
                "S4 exactly one success and one failure, S5/S6/S7 error returns, ghost reclaim rules (never while running/queued/unfinished, "
                "never twice), every harness fiber reclaimed once the runtime settles, ASan on fiber_t and stacks.",
                min_events={"join_trials": 500, "join_joiner_arrived_first": 5, "join_target_finished_first": 5, "join_tryjoin_not_yet": 10,
                            "S6 detach while a joiner is blocked": 10, "S4 second joiner while one is blocked": 10,
                            "S8 join of a running fiber after a close-interrupted read": 5},
                assumptions=ASSUME_COMMON + ["no handle use after a successful join/tryjoin/detach of a finished fiber (user UB, not generated)"])


def c11(tier, seed):
    q = tier == "quick"
    runs = []
    stalls = {"bounded": ["RB_PUSH_MID", "SIGNAL_WAIT_REGISTERED", "MAINT_PUBLISH"], "unbounded": ["MPSC_MID", "SIGNAL_WAIT_REGISTERED", "MAINT_PUBLISH"],
              "sp": ["SPSC_MID", "SIGNAL_WAIT_REGISTERED"], "multi": ["WAIT_MPSC_PRE_PUSH", "MAINT_PUBLISH", "SWITCH_PRE"], "signal": ["SIGNAL_WAIT_REGISTERED", "MAINT_PUBLISH", "SCHEDULED"]}
    for i, sub in enumerate(["bounded", "unbounded", "sp", "multi", "signal"]):
        runs += fb_plan(tier, seed + i * 101, "h_chan", sub, stalls[sub], 8, 60, threads_q=(1, 2, 4, 16), extra=dict(livelock_prop="C11"),
                        stall_every=4, tsan=(sub in ("bounded", "unbounded")), pinned=(sub == "bounded"))
    # raw-speed acknowledged ping-pong on two kernel threads (real store-buffer timing; the stuck-state rule needs no hooks)
    for j, mode in enumerate(("nohook", "nohook", "monitor") if q else ("nohook",) * 6 + ("monitor",) * 2):
        runs.append(fb("h_chan", "mon", "ack", seed + 977, 60 + j, 2, mode=mode, trials=1 if q else 3, ack_msgs=150000 if q else 400000, livelock_prop="C11"))
    return dict(runs=runs,
                rule="a case = one channel life: seeded capacity 2..16, 1..16 senders (1 for the single-producer channel) x 50..450 unique messages, "
                "receivers as the type allows (1; 1..6 for the multi channel), with or without a ready signal, or 200..1000 raise/wait ping-pong "
                "rounds on raw signals. Oracles: phantom/duplicate/loss/per-sender order at each receiver, sends returned minus receives invoked "
                "<= capacity, payload checksum on plain memory (TSan), waits returned <= raises begun, stranded peer at logical quiescence.",
                min_events={"chan_messages_sent": 5000, "chan_receives_that_slept": 100, "chan_sends_that_filled_the_buffer": 10, "lib_signal_spin_count": 1,
                            "SIGNAL_WAIT_REGISTERED": 100},
                assumptions=ASSUME_COMMON + ["one receiver per single-consumer channel, one waiter per fiber_signal (documented contract)"])


def c20(tier, seed):
    runs = ds_plan(tier, seed, ["lifo", "dist", "stack"], ["CAS2_PRE"], ([2, 4, 8], [2, 3, 4, 8, 16]), rounds_q=60, rounds_t=600, ops=2000)
    tsan_any(runs, "stack", seed, 940, (4,) if tier == "quick" else (3, 8), 8 if tier == "quick" else 60)
    runs += fb_plan(tier, seed + 7, "h_chan", "msignal", ["CAS2_PRE", "SIGNAL_WAIT_REGISTERED", "MAINT_PUBLISH", "SCHEDULED"], 16, 120,
                    extra=dict(livelock_prop="C20"), stall_every=4)
    return dict(runs=runs,
                rule=HIST_RULE + "LIFO: every popped node is re-pushed at once (ABA pressure), ghost owner word per node, LIFO definite-inversion rule, "
                "conservation after a drain; dist FIFO: one pusher, 1..15 poppers, nodes handed back for reuse, real-time FIFO and per-popper order; "
                "flushable stack: each node in exactly one flush result, per-producer order inside a list. Multi-signal (fibers): exact ping-pong "
                "(one wait returns per raise) and storm modes; waits returned <= raises begun, raises that report a wake == waits that slept.",
                min_events={"lifo_node_reused_immediately": 100, "dist_pop_retry_cas2_lost": 1, "stack_flush_calls": 100, "msignal_raises_that_woke": 100,
                            "msignal_raises_remembered_or_coalesced": 10, "CAS2_PRE": 1000},
                assumptions=ASSUME_COMMON + ["dist_fifo nodes are never freed while poppers run (documented assumption of the structure)"])


def c19(tier, seed):
    q = tier == "quick"
    runs = []
    k = 0
    for be in ("asm", "uc"):
        for st in ("mmap", "malloc", "split"):
            for suffix in ("", "_dbg"):
                k += 1
                runs.append(Run("ctx_%s_%s%s" % (be, st, suffix), BINARIES["h_ctx"], dict(sub="ctx", seed=S(seed, k), threads=2, trials=36 if q else 200),
                                cpu=1, timeout=400, tag="ctx"))
        k += 1
        runs.append(Run("ctx_%s_malloc_asan" % be, BINARIES["h_ctx"], dict(sub="ctx", seed=S(seed, k), threads=2, trials=20 if q else 100), cpu=1, timeout=400, tag="ctx"))
    return dict(runs=runs,
                rule="a case = one trial: 2..63 contexts with stack sizes from {16K,20000,37035,64K,100000,1M}, a random switch graph of 3000 checked "
                "swaps (into fresh contexts, back to main, chains), every third trial continued by a second kernel thread; matrix {assembly, ucontext} "
                "x {mmap, malloc, split} x {NDEBUG, asserts} plus ASan on malloc stacks. Oracle: an assembly shim plants random values in rbx, rbp, "
                "r12-r15 before calling the real fiber_context_swap and compares them, rsp and a 48-word stack canary on resumption; an entry stub "
                "records rsp and rdi of every fresh context ((rsp+8)%16==0, argument, rsp inside its own stack); stacks disjoint; mmap/munmap "
                "interposed (each stack released once with its own length, none left), address-space growth bound for the other strategies.",
                min_events={"ctx_checked_swaps": 100000, "ctx_fresh_context_entries": 500, "ctx_resumed_on_other_thread": 100, "ctx_destroyed": 500},
                assumptions=ASSUME_COMMON + ["x87/MXCSR control words are not part of the statement and not checked; i386 is not built"])


def c08(tier, seed):
    q = tier == "quick"
    runs = []
    k = 0
    for thr in ((1, 2, 4, 16) if q else (1, 2, 3, 4, 8, 16)):
        for mode in ("monitor", "jitter"):
            k += 1
            runs.append(fb("h_io", "mon", "io", seed, k, thr, mode=mode, trials=24 if q else 150, big=0 if q else 1, livelock_prop="C08", timeout=600))
        k += 1
        runs.append(fb("h_io", "mon", "io", seed, k, thr, mode="monitor", preempt=1, trials=16 if q else 100, big=0, livelock_prop="C08", timeout=600))
    for sp in ("FD_WAIT_REGISTERED", "MAINT_PUBLISH", "SCHEDULED", "SWITCH_PRE", "STEAL"):
        for thr in ((4,) if q else (2, 8)):
            k += 1
            runs.append(fb("h_io", "mon", "io", seed, k, thr, mode="stall", stall_point=sp, stall_every=5, stall_us_lo=50, stall_us_hi=1500,
                           trials=8 if q else 50, big=0, livelock_prop="C08", timeout=600))
    for variant in ("asan", "asan_ndebug", "dbg"):
        for thr in ((4,) if q else (1, 8)):
            k += 1
            runs.append(fb("h_io", variant, "io", seed, k, thr, mode="jitter", trials=12 if q else 60, big=0, livelock_prop="C08", timeout=600))
        k += 1
        runs.append(fb("h_io", variant, "io", seed, k, 2, mode="monitor", trials=6, scenario=3, livelock_prop="C08"))
    if not q:
        k += 1
        runs.append(fb("h_io", "pinned", "io", seed, k, 8, mode="jitter", trials=60, livelock_prop="C08", timeout=600))
    return dict(runs=runs,
                rule="a case = one trial of one scenario: (0) 1-4 connections (socketpair / pipe / loopback TCP, buffers optionally shrunk) each carrying "
                "self-describing byte streams of 1 B..1.5 MB in both directions through random read/recv/readv/recvfrom/recvmsg and "
                "write/send/writev/sendto/sendmsg calls with random sizes, next to a ticker; (1) EOF after close; (2) the five ways of making a call "
                "non-blocking (and back); (3) invalid descriptors {-1,-7,closed,rlim_max,rlim_max+5,2^20,INT_MAX} through eight calls; (4) close while "
                "1-3 readers are blocked; (5) 2-4 acceptors x connectors on one listening socket and 2-5 receivers on one datagram socket; (6) connect "
                "to a dead port; (7) reader and writer blocked on one descriptor in opposite directions with an idle peer; (8) UDP round trips "
                "with addresses, non-blocking send on a full socket, writer woken by close, non-blocking connect, accept with an address buffer. Oracles: stream position-exact (complete, ordered, unduplicated, never empty), no EAGAIN in blocking mode, non-blocking "
                "calls do not context-switch, invalid descriptors give EBADF (ASan with and without NDEBUG for the fd tables), datagrams exactly once, "
                "blocked fibers resumed (quiescence), ticker progress.",
                min_events={"io_stream_bytes_transferred": 100000, "io_calls_that_suspended_the_fiber": 100, "io_nonblocking_probes": 3,
                            "io_invalid_descriptor_probes": 50, "io_readers_woken_by_close": 2, "io_connections_accepted_with_several_acceptors": 10,
                            "io_datagrams_with_several_receivers": 100, "io_short_writes": 1,
                            "io_opposite_direction_trials": 1, "io_udp_roundtrips": 20},
                assumptions=ASSUME_COMMON + ["only AF_UNIX / AF_INET loopback sockets and pipes; kernel-dependent short-count sizes are not compared",
                                             "callers read errno through a fresh __errno_location() after a blocking call (a fiber may migrate)"])


CHECKS = {
    "C01": c01,
    "C08": c08,
    "C19": c19,
    "C11": c11,
    "C20": c20,
    "C04": c04,
    "C09": c09,
    "C03": c03,
    "C05": c05,
    "C06": c06,
    "C07": c07,
    "C10": c10,
    "C12": c12,
    "C18": c18,
    "C02": c02_full,
    "C13": c13,
    "C14": c14,
    "C15": c15,
    "C16": c16,
    "C17": c17,
}
