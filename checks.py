"""Per-property run plans. Each entry: f(tier, seed) -> dict(runs, rule, min_events, assumptions)."""
from vplib import Run

RT = ["vp_rt.c", "vp_ghost.c"]
DS_SRCS = ["ds_main.c", "ds_wsd.c", "ds_stubs.c"] + RT

BINARIES = {
    "h_ds": ("h_ds", DS_SRCS),
}

ASSUME_COMMON = [
    "x86-64 Linux, gcc 12; verdicts hold for the executions produced by these runs only",
    "library built from /repo working tree with -DFIBER_VERIF; hooks are additive observation points",
]


def S(seed, k):
    """derive a per-run seed"""
    return (seed * 1000003 + k * 7919 + 1) & 0x7FFFFFFF


def ds(variant, sub, seed, k, threads, mode="jitter", cpu=None, timeout=400, **kw):
    args = dict(sub=sub, seed=S(seed, k), threads=threads, mode=mode)
    args.update(kw)
    return Run(variant, BINARIES["h_ds"], args, cpu=cpu or min(threads, 8), timeout=timeout, tag=sub)


def c02(tier, seed):
    q = tier == "quick"
    runs = []
    k = 0
    # raw mode: no hook, no stamps -> real store-buffer behaviour (Chase-Lev fence), conservation oracle
    for thr in ([4, 8, 16] if q else [2, 3, 4, 8, 12, 16]):
        for shape in (0, 1, 2):
            k += 1
            runs.append(ds("mon", "wsd", seed, k, thr, mode="nohook", rounds=20 if q else 200, ops=100000 if q else 200000, shape=shape))
    # stamped histories under perturbation: owner-mirror, empty rule, steal order
    modes = [("jitter", {}), ("stall", dict(stall_point="WSD_POP_MID", stall_us_lo=20, stall_us_hi=300, stall_every=3)),
             ("stall", dict(stall_point="WSD_STEAL_PRE_CAS", stall_us_lo=20, stall_us_hi=300, stall_every=5)),
             ("stall", dict(stall_point="WSD_GROW", stall_us_lo=200, stall_us_hi=2000)), ("skew", {})]
    for thr in ([3, 8] if q else [2, 3, 5, 8, 16]):
        for (m, extra) in modes:
            k += 1
            runs.append(ds("mon", "wsd", seed, k, thr, mode=m, rounds=30 if q else 300, ops=6000 if q else 12000, **extra))
    for thr in ([4] if q else [2, 8, 16]):
        k += 1
        runs.append(ds("asan", "wsd", seed, k, thr, mode="jitter", rounds=20 if q else 150, ops=6000))
        k += 1
        runs.append(ds("dbg", "wsd", seed, k, thr, mode="jitter", rounds=20 if q else 150, ops=6000))
    return dict(
        runs=runs,
        rule="a case = one deque life (round): one owner doing push/pop bursts of a seeded shape (0: length 0-2, 1: grow past "
             "256 and drain, 2: mixed) with 0..threads-1 thieves, unique entries; or one whole-runtime program. Oracles: "
             "exactly-once (atomic taken-flags), no phantom, no loss after the owner saw EMPTY, owner pop returns the newest "
             "entry it still holds, EMPTY/ABORT only if every remaining entry was taken by a steal invoked earlier, steals in "
             "age order. distinct_nontrivial = number of distinct (thread,op,result) invocation-order sequences among stamped "
             "histories in which operations of different threads overlapped, plus distinct (shape,thieves,outcome-class) "
             "tuples of raw rounds.",
        min_events={"wsd_pop_abort_lost_last_element_race": 1, "wsd_steal_abort": 1, "WSD_GROW": 1, "wsd_owner_found_empty_after_thieves_took_all": 1},
        assumptions=ASSUME_COMMON + ["raw (hook-free) runs rely on real hardware reordering to expose missing fences"],
    )


CHECKS = {
    "C02": c02,
}
