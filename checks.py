"""Per-property run plans. Each entry: f(tier, seed) -> dict(runs, rule, min_events, assumptions)."""
from vplib import Run

RT = ["vp_rt.c", "vp_ghost.c"]
DS_SRCS = ["ds_main.c", "ds_wsd.c", "ds_mpmc.c", "ds_mpsc.c", "ds_ring.c", "ds_wq.c", "ds_cas2.c", "ds_hazard.c", "ds_selftest.c"] + RT

BINARIES = {
    "h_ds": ("h_ds", DS_SRCS),
}

ASSUME_COMMON = [
    "x86-64 Linux, gcc 12; verdicts hold for the executions produced by these runs only",
    "library built from /repo working tree with -DFIBER_VERIF; hooks are additive observation points",
]


def S(seed, k):
    """derive a per-run seed"""
    return (seed * 1000003 + k * 7919 + 1) & 0x7FFFFFFF


def ds(variant, sub, seed, k, threads, mode="jitter", cpu=None, timeout=400, **kw):
    args = dict(sub=sub, seed=S(seed, k), threads=threads, mode=mode)
    args.update(kw)
    return Run(variant, BINARIES["h_ds"], args, cpu=cpu or min(threads, 8), timeout=timeout, tag=sub)


def c02(tier, seed):
    q = tier == "quick"
    runs = []
    k = 0
    # raw mode: no hook, no stamps -> real store-buffer behaviour (Chase-Lev fence), conservation oracle
    for thr in ([4, 8, 16] if q else [2, 3, 4, 8, 12, 16]):
        for shape in (0, 1, 2):
            k += 1
            runs.append(ds("mon", "wsd", seed, k, thr, mode="nohook", rounds=20 if q else 200, ops=100000 if q else 200000, shape=shape))
    # stamped histories under perturbation: owner-mirror, empty rule, steal order
    modes = [("jitter", {}), ("stall", dict(stall_point="WSD_POP_MID", stall_us_lo=20, stall_us_hi=300, stall_every=3)),
             ("stall", dict(stall_point="WSD_STEAL_PRE_CAS", stall_us_lo=20, stall_us_hi=300, stall_every=5)),
             ("stall", dict(stall_point="WSD_GROW", stall_us_lo=200, stall_us_hi=2000)), ("skew", {})]
    for thr in ([3, 8] if q else [2, 3, 5, 8, 16]):
        for (m, extra) in modes:
            k += 1
            runs.append(ds("mon", "wsd", seed, k, thr, mode=m, rounds=30 if q else 300, ops=6000 if q else 12000, **extra))
    for thr in ([4] if q else [2, 8, 16]):
        k += 1
        runs.append(ds("asan", "wsd", seed, k, thr, mode="jitter", rounds=20 if q else 150, ops=6000))
        k += 1
        runs.append(ds("dbg", "wsd", seed, k, thr, mode="jitter", rounds=20 if q else 150, ops=6000))
    return dict(
        runs=runs,
        rule="a case = one deque life (round): one owner doing push/pop bursts of a seeded shape (0: length 0-2, 1: grow past "
             "256 and drain, 2: mixed) with 0..threads-1 thieves, unique entries; or one whole-runtime program. Oracles: "
             "exactly-once (atomic taken-flags), no phantom, no loss after the owner saw EMPTY, owner pop returns the newest "
             "entry it still holds, EMPTY/ABORT only if every remaining entry was taken by a steal invoked earlier, steals in "
             "age order. distinct_nontrivial = number of distinct (thread,op,result) invocation-order sequences among stamped "
             "histories in which operations of different threads overlapped, plus distinct (shape,thieves,outcome-class) "
             "tuples of raw rounds.",
        min_events={"wsd_pop_abort_lost_last_element_race": 1, "wsd_steal_abort": 1, "WSD_GROW": 1, "wsd_owner_found_empty_after_thieves_took_all": 1},
        assumptions=ASSUME_COMMON + ["raw (hook-free) runs rely on real hardware reordering to expose missing fences"],
    )



def ds_plan(tier, seed, subs, stall_points, thread_sets, rounds_q=60, rounds_t=600, ops=3000, extra=None):
    """generic plan for a container property: raw + jitter + skew + targeted stalls, mon/asan/dbg variants"""
    q = tier == "quick"
    runs = []
    k = 0
    rounds = rounds_q if q else rounds_t
    for sub in subs:
        for thr in (thread_sets[0] if q else thread_sets[1]):
            for mode in ("nohook", "jitter", "skew"):
                k += 1
                runs.append(ds("mon", sub, seed, k, thr, mode=mode, hist=1, rounds=rounds, ops=ops, **(extra or {})))
            for sp in stall_points:
                k += 1
                runs.append(ds("mon", sub, seed, k, thr, mode="stall", stall_point=sp, stall_us_lo=30, stall_us_hi=600,
                               stall_every=7, rounds=max(10, rounds // 3), ops=ops, **(extra or {})))
        for thr in ([thread_sets[0][-1]] if q else thread_sets[1][-2:]):
            k += 1
            runs.append(ds("asan", sub, seed, k, thr, mode="jitter", rounds=max(10, rounds // 3), ops=ops, **(extra or {})))
            k += 1
            runs.append(ds("dbg", sub, seed, k, thr, mode="jitter", rounds=max(10, rounds // 3), ops=ops, **(extra or {})))
    return runs


HIST_RULE = ("a case = one stamped history (round) of a fresh structure: seeded role split over the worker threads, unique values, "
             "invocation/return stamps from one global atomic counter, final single-threaded drain. distinct_nontrivial = number of "
             "distinct (thread,op,result) invocation-order sequences among histories in which operations of different threads overlapped. ")


def c13(tier, seed):
    return dict(runs=ds_plan(tier, seed, ["mpmc"], ["MPMC_POP_PRE_CAS", "MPMC_PUSH_MID", "HP_SCAN_SNAPSHOT"], ([2, 4, 8], [2, 3, 4, 8, 16])),
                rule=HIST_RULE + "Oracles: no phantom, exactly-once, no loss, real-time FIFO (definite pattern), EMPTY only if no value was inside "
                "for the whole call or a push overlapped; nodes reclaimed by the hazard GC are freed (ASan) or poisoned and recycled at once.",
                min_events={"mpmc_nodes_reclaimed_by_hazard_gc": 100, "mpmc_pop_empty": 1, "histories_with_overlap": 10},
                assumptions=ASSUME_COMMON)


def c14(tier, seed):
    runs = ds_plan(tier, seed, ["hazard"], ["HP_SCAN_SNAPSHOT", "H100"], ([2, 4, 8], [2, 3, 4, 8, 16]), ops=4000)
    # the MPMC FIFO is the structure built on it: "no structure built on it dereferences a reclaimed node"
    runs += ds_plan(tier, seed + 17, ["mpmc"], ["HP_SCAN_SNAPSHOT"], ([8], [4, 16]), rounds_q=30, rounds_t=300)
    return dict(runs=runs,
                rule="a case = one round: seeded split into writers (unlink from 8 shared slots + hazard_pointer_free) and readers (publish, "
                "re-validate, hold 1..K validated protections, release), K fixed per process (1..4), late-joining records, shuffled node "
                "addresses. Oracles: GC callback never sees a node with a validated protection (ghost count) and readers never see the "
                "canary die; retired_count < threshold after every retirement; thresholds == 2*N*K at quiescence; after readers stop, "
                "'threshold' further retirements reclaim everything retired before. distinct_nontrivial = distinct (writers, late joiners, K, "
                "records) tuples plus overlapping MPMC histories.",
                min_events={"hp_validated_protections": 1000, "hp_reclaimed": 1000, "hp_nodes_still_retired_at_round_end": 1, "HP_SCAN_SNAPSHOT": 10},
                assumptions=ASSUME_COMMON)


def c15(tier, seed):
    return dict(runs=ds_plan(tier, seed, ["mpsc", "spsc", "mpscr"], ["MPSC_MID", "SPSC_MID"], ([2, 5, 8], [2, 3, 5, 8, 16])),
                rule=HIST_RULE + "Oracles: no phantom, exactly-once, no loss, per-producer order in the consumer's program order, real-time FIFO "
                "for the strict queues, EMPTY only if nothing was inside for the whole call or a push overlapped.",
                min_events={"q_pop_empty": 1, "q_nodes_recycled": 100, "histories_with_overlap": 10, "MPSC_MID": 1, "SPSC_MID": 1},
                assumptions=ASSUME_COMMON + ["single consumer (worker 0), one producer per lane for the relaxed queue"])


def c16(tier, seed):
    return dict(runs=ds_plan(tier, seed, ["ring"], ["RB_PUSH_MID", "RB_POP_MID"], ([2, 4, 8], [2, 3, 4, 8, 16]), rounds_q=40, rounds_t=400),
                rule=HIST_RULE + "Capacities 2..64 (seeded). Oracles: sequential prefix (fill, overflow, drain, underflow), no phantom, exactly-once, "
                "no loss, real-time FIFO, occupancy lower bound <= capacity, and the exact rule for a failed try-operation that nothing overlaps.",
                min_events={"ring_push_fail": 1, "ring_pop_fail": 1, "ring_laps_total": 100, "RB_PUSH_MID": 1, "RB_POP_MID": 1},
                assumptions=ASSUME_COMMON + ["2^64 index overflow is unreachable and not simulated"])


def c17(tier, seed):
    return dict(runs=ds_plan(tier, seed, ["wq"], ["WQ_PUSH_MID", "WQ_RETIRE_PRE_SUB", "MPSC_MID"], ([2, 4, 8], [2, 3, 4, 8, 16])),
                rule=HIST_RULE + "Every thread pushes; whoever is told START_WORKING calls get_work until EMPTY; no harness drain. Oracles: "
                "exactly-once hand-out, no stranded item at the end, EMPTY only if every push that had returned was already handed out, no two "
                "sessions [START returned, final get_work invoked] intersect.",
                min_events={"wq_start_working": 10, "wq_sessions_with_items_of_other_pushers": 1, "WQ_RETIRE_PRE_SUB": 1},
                assumptions=ASSUME_COMMON)


CHECKS = {
    "C02": c02,
    "C13": c13,
    "C14": c14,
    "C15": c15,
    "C16": c16,
    "C17": c17,
}
