"""Driver library for the libfiber runtime-monitoring checks (DESIGN.md §3).

build variants from /repo's working tree in a private temp dir -> run harness processes in parallel ->
merge their JSON results -> verdict (held / violated / inconclusive) -> evidence + witness files.
"""
import concurrent.futures as cf
import hashlib
import json
import os
import re
import shutil
import signal
import subprocess
import sys
import tempfile
import threading
import time

VERIF = os.path.dirname(os.path.abspath(__file__))
REPO = os.environ.get("VP_REPO", "/repo")
HARNESS = os.path.join(VERIF, "harness")

LIB_SRCS = ["fiber_context", "fiber_manager", "fiber_mutex", "fiber_semaphore", "fiber_spinlock", "fiber_cond",
            "fiber", "fiber_barrier", "fiber_io", "fiber_rwlock", "hazard_pointer", "work_stealing_deque",
            "work_queue", "fiber_scheduler_wsd", "fiber_event_native", "fiber_verif"]

COMMON = ["-g", "-DFIBER_VERIF", "-I" + os.path.join(REPO, "include"), "-I" + HARNESS, "-D_GNU_SOURCE", "-w"]
VARIANTS = {
    # closest to the pinned optimisation level, asserts off
    "mon": dict(cflags=["-O2", "-DNDEBUG", "-DFIBER_STACK_MMAP", "-DFIBER_FAST_SWITCHING"], ldflags=[]),
    # the maintainers' own asserts as extra monitors
    "dbg": dict(cflags=["-O1", "-DFIBER_STACK_MALLOC", "-DFIBER_FAST_SWITCHING"], ldflags=[]),
    "asan": dict(cflags=["-O1", "-fno-omit-frame-pointer", "-fsanitize=address,undefined", "-fno-sanitize-recover=all",
                         "-DFIBER_STACK_MALLOC", "-DFIBER_FAST_SWITCHING", "-DVP_ASAN"],
                 ldflags=["-fsanitize=address,undefined"]),
    "asan_ndebug": dict(cflags=["-O1", "-DNDEBUG", "-fno-omit-frame-pointer", "-fsanitize=address,undefined",
                                "-fno-sanitize-recover=all", "-DFIBER_STACK_MALLOC", "-DFIBER_FAST_SWITCHING", "-DVP_ASAN"],
                        ldflags=["-fsanitize=address,undefined"]),
    "tsan": dict(cflags=["-O1", "-fsanitize=thread", "-DFIBER_STACK_MALLOC", "-DFIBER_FAST_SWITCHING", "-DVP_TSAN"],
                 ldflags=["-fsanitize=thread"]),
    "pinned": dict(cflags=["-O2", "-DNDEBUG", "-fsplit-stack", "-DFIBER_STACK_SPLIT", "-DFIBER_FAST_SWITCHING"],
                   ldflags=["-fsplit-stack"]),
}

for _be, _bf in (("asm", ["-DFIBER_FAST_SWITCHING"]), ("uc", [])):
    for _st, _sf, _lf in (("mmap", ["-DFIBER_STACK_MMAP"], []), ("malloc", ["-DFIBER_STACK_MALLOC"], []),
                          ("split", ["-DFIBER_STACK_SPLIT", "-fsplit-stack"], ["-fsplit-stack"])):
        VARIANTS["ctx_%s_%s" % (_be, _st)] = dict(cflags=["-O2", "-DNDEBUG"] + _bf + _sf, ldflags=_lf)
        VARIANTS["ctx_%s_%s_dbg" % (_be, _st)] = dict(cflags=["-O1"] + _bf + _sf, ldflags=_lf)
    VARIANTS["ctx_%s_malloc_asan" % _be] = dict(cflags=["-O1", "-fno-omit-frame-pointer", "-fsanitize=address,undefined", "-fno-sanitize-recover=all",
                                                        "-DFIBER_STACK_MALLOC", "-DVP_ASAN"] + _bf, ldflags=["-fsanitize=address,undefined"])

SAN_ENV = {
    "ASAN_OPTIONS": "abort_on_error=0:detect_leaks=0:detect_stack_use_after_return=0:allocator_may_return_null=1:exitcode=66",
    "UBSAN_OPTIONS": "print_stacktrace=1:halt_on_error=1:exitcode=67",
    "TSAN_OPTIONS": "halt_on_error=0:report_signal_unsafe=0:report_thread_leaks=0:history_size=4:exitcode=0",
}


class HarnessFailure(Exception):
    pass


class Builder:
    def __init__(self, tmp):
        self.tmp = tmp
        self.lock = threading.Lock()
        self.bins = {}

    def _cc(self, args):
        p = subprocess.run(["gcc"] + args, capture_output=True, text=True)
        if p.returncode != 0:
            raise HarnessFailure("compile failed: gcc %s\n%s" % (" ".join(args), p.stderr[-3000:]))

    def lib_objects(self, variant, extra_cflags=()):
        key = ("lib", variant, tuple(extra_cflags))
        with self.lock:
            if key in self.bins:
                return self.bins[key]
        v = VARIANTS[variant]
        d = os.path.join(self.tmp, "lib_%s_%s" % (variant, hashlib.md5(repr(extra_cflags).encode()).hexdigest()[:6]))
        os.makedirs(d, exist_ok=True)
        objs = []
        jobs = []
        with cf.ThreadPoolExecutor(16) as ex:
            for s in LIB_SRCS:
                o = os.path.join(d, s + ".o")
                objs.append(o)
                jobs.append(ex.submit(self._cc, ["-c", "-std=gnu11"] + COMMON + v["cflags"] + list(extra_cflags) +
                                      [os.path.join(REPO, "src", s + ".c"), "-o", o]))
            for j in jobs:
                j.result()
        with self.lock:
            self.bins[key] = objs
        return objs

    def harness(self, variant, name, sources, extra_cflags=(), extra_ldflags=(), with_lib=True):
        """sources: file names relative to HARNESS. Returns path of the binary."""
        key = ("bin", variant, name, tuple(extra_cflags))
        with self.lock:
            if key in self.bins:
                return self.bins[key]
        v = VARIANTS[variant]
        objs = self.lib_objects(variant, extra_cflags) if with_lib else []
        d = os.path.join(self.tmp, "h_%s_%s" % (variant, name))
        os.makedirs(d, exist_ok=True)
        hobjs = []
        jobs = []
        with cf.ThreadPoolExecutor(16) as ex:
            for s in sources:
                o = os.path.join(d, os.path.basename(s) + ".o")
                hobjs.append(o)
                src = s if os.path.isabs(s) else os.path.join(HARNESS, s)
                jobs.append(ex.submit(self._cc, ["-c"] + (["-std=gnu11"] if src.endswith(".c") else []) + COMMON +
                                      v["cflags"] + list(extra_cflags) + [src, "-o", o]))
            for j in jobs:
                j.result()
        out = os.path.join(d, name)
        self._cc(hobjs + objs + v["ldflags"] + list(extra_ldflags) + ["-lpthread", "-ldl", "-o", out])
        with self.lock:
            self.bins[key] = out
        return out


class Run:
    """one harness process"""

    def __init__(self, variant, binary, args, cpu=4, timeout=300, tag=None, env=None, expect_min=None):
        self.variant = variant
        self.binary = binary  # (name, sources[, extra_cflags]) resolved by the check
        self.args = dict(args)
        self.cpu = cpu
        self.timeout = timeout
        self.tag = tag or ""
        self.env = env or {}
        self.wrapper = None  # optional argv prefix (e.g. strace fault injection)
        self.result = None
        self.outcome = None  # ok | violation | inconclusive | crash | sanitizer
        self.stderr_tail = ""
        self.rc = None
        self.attempts = 0

    def describe(self):
        d = dict(variant=self.variant, binary=self.binary[0], args=self.args, tag=self.tag)
        if getattr(self, "tsan_rule", None):
            d["tsan_rule"] = self.tsan_rule
        if self.wrapper:
            d["wrapper"] = self.wrapper
        return d


_STRACE_OK = None


def strace_inject_available():
    """fault injection through strace needs ptrace; probe once, callers skip those runs (and say so) when it is not there"""
    global _STRACE_OK
    if _STRACE_OK is None:
        try:
            p = subprocess.run(["strace", "-f", "-qq", "-o", "/dev/null", "-e", "trace=read", "-e", "inject=read:error=EAGAIN:when=60000", "/bin/true"],
                               capture_output=True, timeout=30)
            _STRACE_OK = p.returncode == 0
        except Exception:
            _STRACE_OK = False
    return _STRACE_OK


ASAN_RE = re.compile(r"ERROR: AddressSanitizer: ([\w-]+)")
UBSAN_RE = re.compile(r"([\w./-]+):(\d+):\d+: runtime error: (.*)")
FRAME_RE = re.compile(r"^\s*#\d+ 0x[0-9a-f]+ in (\S+)")


def sanitizer_key(stderr):
    """asan:<kind>:<first non-interceptor frame> | ubsan:<file>:<message class>"""
    m = ASAN_RE.search(stderr)
    if m:
        kind = m.group(1)
        func = "?"
        tail = stderr[m.end():]
        for line in tail.splitlines():
            fm = FRAME_RE.match(line)
            if fm:
                f = fm.group(1)
                if f.startswith("__") or f.startswith("_IO") or f in ("memcpy", "memset", "free", "malloc", "read", "write"):
                    continue
                func = f
                break
        return "asan:%s:%s" % (kind, func)
    m = UBSAN_RE.search(stderr)
    if m:
        msg = re.sub(r"0x[0-9a-f]+|\d+", "N", m.group(3))[:60]
        return "ubsan:%s:%s" % (os.path.basename(m.group(1)), msg)
    return None


def tsan_payload_reports(stderr):
    """number of TSan race reports in which both top frames are harness payload functions (vp_payload_*)"""
    n_payload = 0
    n_total = 0
    for block in stderr.split("WARNING: ThreadSanitizer: data race")[1:]:
        n_total += 1
        tops = []
        lines = block.splitlines()
        for i, line in enumerate(lines):
            if re.match(r"\s+(Write|Read|Previous write|Previous read|Atomic|Previous atomic)", line):
                for l2 in lines[i + 1:i + 3]:
                    fm = re.match(r"\s*#0 (\S+)", l2)
                    if fm:
                        tops.append(fm.group(1))
                        break
        if len(tops) >= 2 and all(t.startswith("vp_payload") for t in tops[:2]):
            n_payload += 1
    return n_payload, n_total


CANCEL = threading.Event()  # set once some run has produced a definite violation: the verdict is decided
LIVE = {}
LIVE_LOCK = threading.Lock()


def execute(run, binpath, tmp, idx):
    out = os.path.join(tmp, "res_%d_%d.json" % (idx, run.attempts))
    errf = os.path.join(tmp, "err_%d_%d.txt" % (idx, run.attempts))
    slog = os.path.join(tmp, "strace_%d_%d.log" % (idx, run.attempts))
    argv = [slog if a == "@LOG@" else a for a in (run.wrapper or [])] + [binpath] + ["%s=%s" % kv for kv in run.args.items()] + ["out=" + out]
    env = dict(os.environ)
    env.update(SAN_ENV)
    env.update(run.env)
    run.attempts += 1
    t0 = time.time()
    timed_out = False
    with open(errf, "wb") as ef:
        if CANCEL.is_set():
            run.outcome = "cancelled"
            run.wall = 0
            run.rc = None
            return
        p = subprocess.Popen(argv, stdout=ef, stderr=ef, env=env, cwd=tmp, start_new_session=True)
        with LIVE_LOCK:
            LIVE[p.pid] = p
        try:
            rc = p.wait(timeout=run.timeout)
        except subprocess.TimeoutExpired:
            timed_out = True
            try:
                os.killpg(p.pid, signal.SIGKILL)
            except ProcessLookupError:
                pass
            rc = p.wait()
    with LIVE_LOCK:
        LIVE.pop(p.pid, None)
    run.wall = time.time() - t0
    run.rc = rc
    if run.wrapper and os.path.exists(slog):
        # what the fault injection actually did: injected failures of reads on the timer descriptor / all reads seen
        inj = tot = 0
        with open(slog, "rb") as sf:
            for line in sf:
                if b" read(" in line:
                    tot += 1
                    if b"(INJECTED)" in line and b", 8)" in line:
                        inj += 1
        run.injected, run.traced = inj, tot
        os.unlink(slog)
    if CANCEL.is_set() and rc in (-9, -signal.SIGKILL):
        run.outcome = "cancelled"
        return
    with open(errf, "rb") as ef:
        data = ef.read()
    stderr = data[-200000:].decode("utf-8", "replace")
    run.stderr_tail = stderr[-6000:]
    run.san_key = None
    run.result = None
    if os.path.exists(out):
        try:
            run.result = json.load(open(out))
        except Exception:
            run.result = None
    if timed_out:
        run.outcome = "inconclusive"
        run.reason = "driver wall-clock timeout %ds" % run.timeout
        return
    sk = sanitizer_key(stderr)
    if sk:
        run.outcome = "sanitizer"
        run.san_key = sk
        m = ASAN_RE.search(stderr) or UBSAN_RE.search(stderr)
        run.stderr_tail = stderr[max(0, m.start() - 200):m.start() + 5000]
        return
    if run.variant == "tsan":
        np_, nt = tsan_payload_reports(stderr)
        run.tsan_payload, run.tsan_total = np_, nt
        if nt and getattr(run, "tsan_rule", "payload") == "any":
            # structures written purely with C11 atomics are TSan-clean on the unmodified tree: every report counts
            m = re.search(r"WARNING: ThreadSanitizer: data race.*?#0 (\S+)", stderr, re.S)
            run.outcome = "sanitizer"
            run.san_key = "tsan:data-race:%s" % (m.group(1) if m else "?")
            i = stderr.find("WARNING: ThreadSanitizer")
            run.stderr_tail = stderr[i:i + 5000]
            return
        if np_ and not getattr(run, "tsan_judged", True):
            np_ = 0  # counted in the evidence (tsan_payload_reports_outside_statement), not a verdict for this property
            run.tsan_info = getattr(run, "tsan_payload", 0)
        if np_:
            run.outcome = "sanitizer"
            run.san_key = "tsan:payload-race"
            i = stderr.find("WARNING: ThreadSanitizer")
            run.stderr_tail = stderr[i:i + 5000]
            return
    if run.result is not None:
        st = run.result.get("status")
        if st == "ok" and rc == 0:
            run.outcome = "ok"
        elif st == "violation":
            run.outcome = "violation"
        elif st == "inconclusive":
            run.outcome = "inconclusive"
            run.reason = run.result.get("inconclusive", "?")
        else:
            run.outcome = "crash"
        return
    if rc < 0 or rc in (134, 139, 66, 67):
        run.outcome = "crash"
    elif rc == 2:
        run.outcome = "harness_failure"
    else:
        run.outcome = "crash"


def crash_key(run):
    sig = -run.rc if run.rc is not None and run.rc < 0 else run.rc
    name = {6: "SIGABRT", 11: "SIGSEGV", 7: "SIGBUS", 4: "SIGILL", 8: "SIGFPE", 134: "SIGABRT", 139: "SIGSEGV"}.get(sig, "rc%s" % sig)
    m = re.search(r"Assertion `(.*?)' failed", run.stderr_tail)
    if m:
        return "crash:assert:%s" % re.sub(r"\s+", " ", m.group(1))[:60]
    return "crash:%s" % name


def run_all(runs, builder, tmp, max_cpu=20, log=None):
    """build what is needed, then execute the runs keeping the sum of cpu <= max_cpu"""
    bins = {}
    for r in runs:
        k = (r.variant,) + tuple(r.binary[:1])
        if k not in bins:
            name, sources = r.binary[0], r.binary[1]
            extra = tuple(r.binary[2]) if len(r.binary) > 2 else ()
            bins[k] = builder.harness(r.variant, name, sources, extra_cflags=extra)
    cond = threading.Condition()
    state = dict(cpu=0)

    def worker(i, r):
        need = min(r.cpu, max_cpu)
        with cond:
            while state["cpu"] + need > max_cpu:
                cond.wait()
            state["cpu"] += need
        try:
            execute(r, bins[(r.variant, r.binary[0])], tmp, i)
            if r.outcome == "inconclusive" and not CANCEL.is_set():
                # re-run once before calling it inconclusive
                execute(r, bins[(r.variant, r.binary[0])], tmp, i)
            if r.outcome in ("violation", "sanitizer", "crash") and os.environ.get("VP_NO_EARLY_STOP") != "1":
                # the verdict is decided: stop the remaining runs (they could only add more witnesses)
                CANCEL.set()
                with LIVE_LOCK:
                    for pid in list(LIVE):
                        try:
                            os.killpg(pid, signal.SIGKILL)
                        except ProcessLookupError:
                            pass
        finally:
            with cond:
                state["cpu"] -= need
                cond.notify_all()
        if log:
            log("  run %d %s %s %s -> %s (%.1fs)" % (i, r.variant, r.binary[0], " ".join("%s=%s" % kv for kv in r.args.items()), r.outcome, r.wall))

    with cf.ThreadPoolExecutor(max(1, min(len(runs), 32))) as ex:
        futs = [ex.submit(worker, i, r) for i, r in enumerate(runs)]
        for f in futs:
            f.result()


def load_known():
    p = os.path.join(VERIF, "known_findings.json")
    if not os.path.exists(p):
        return []
    return json.load(open(p)).get("findings", [])


def finish_check(prop, tier, seed, runs, t0, rule, min_events, assumptions, extra_cov=None, log=print):
    """merge results, decide, write evidence, print verdict lines, return exit code"""
    counters = {}
    hook_hits = {}
    hook_delays = {}
    samples = []
    notes = []
    distinct = 0
    evaluations = 0
    client_ops = 0
    viols = []  # (attributed prop, key, detail, run)
    inconclusive = []
    failures = []
    tsan_internal = 0
    tsan_info = 0
    for r in runs:
        res = r.result or {}
        for k, v in res.get("counters", {}).items():
            if k.startswith("ghost_max") or k.endswith("_max") or "max_" in k:
                counters[k] = max(counters.get(k, 0), v)
            elif k.endswith("_min") or "min_" in k:
                counters[k] = min(counters.get(k, v), v) if v else counters.get(k, 0)
            else:
                counters[k] = counters.get(k, 0) + v
        if res.get("preemptions_injected"):
            counters["preemptions_injected_by_signal"] = counters.get("preemptions_injected_by_signal", 0) + res["preemptions_injected"]
        for k, v in res.get("hook_hits", {}).items():
            hook_hits[k] = hook_hits.get(k, 0) + v
        for k, v in res.get("hook_delays", {}).items():
            hook_delays[k] = hook_delays.get(k, 0) + v
        distinct += res.get("distinct", 0)
        evaluations += res.get("cases", 0) or 0
        client_ops += res.get("progress", 0)
        for s in res.get("samples", [])[:2]:
            if len(samples) < 6:
                samples.append(dict(run=r.describe(), case=s))
        for s in res.get("notes", [])[:3]:
            if len(notes) < 12:
                notes.append(s)
        tsan_internal += getattr(r, "tsan_total", 0) - getattr(r, "tsan_payload", 0)
        tsan_info += getattr(r, "tsan_info", 0)
        if r.outcome == "violation":
            for v in res.get("violations", []):
                viols.append((v["prop"], v["key"], v["detail"], r))
            if not res.get("violations"):
                viols.append((prop, "unknown", "violation status without details", r))
        elif r.outcome == "sanitizer":
            viols.append((prop, r.san_key, r.stderr_tail[:3000], r))
        elif r.outcome == "crash":
            viols.append((prop, crash_key(r), r.stderr_tail[-3000:], r))
        elif r.outcome == "inconclusive":
            inconclusive.append((r, getattr(r, "reason", "?")))
        elif r.outcome == "harness_failure":
            failures.append(r)
    wall = time.time() - t0
    known = load_known()
    unknown_viols = []
    known_hits = {}
    for (vp, key, detail, r) in viols:
        hit = None
        for k in known:
            if k.get("status") == "known" and k["property"] == vp and (k["key"] == key or (k["key"].endswith("*") and key.startswith(k["key"][:-1]))):
                hit = k
                break
        if hit:
            known_hits.setdefault((vp, hit["key"]), hit)
        else:
            unknown_viols.append((vp, key, detail, r))
    # evidence
    evdir = os.environ.get("VP_EVIDENCE_DIR", os.path.join(VERIF, "evidence"))
    os.makedirs(evdir, exist_ok=True)
    missing = [k for k, n in (min_events or {}).items() if (counters.get(k, 0) + hook_hits.get(k, 0)) < n]
    cov = dict(evaluations=int(evaluations), distinct_nontrivial=int(distinct), rule=rule, samples=samples or ["(no sample recorded)"],
               counters=counters, hook_hits=hook_hits, hook_delays_injected=hook_delays,
               runs=[dict(r.describe(), outcome=r.outcome, wall_s=round(getattr(r, "wall", 0), 2)) for r in runs],
               process_runs=len(runs), client_operations=int(client_ops), notes=notes,
               tsan_library_internal_reports_not_judged=tsan_internal,
               tsan_payload_reports_outside_statement=tsan_info,
               known_findings_observed=[dict(property=a, key=b) for (a, b) in known_hits],
               inconclusive_runs=len(inconclusive))
    if extra_cov:
        cov.update(extra_cov)
    if any(getattr(r, "injected", None) is not None for r in runs):
        cov["fault_injection_observed"] = dict(reads_traced=sum(getattr(r, "traced", 0) or 0 for r in runs),
                                               eight_byte_timer_reads_failed_by_injection=sum(getattr(r, "injected", 0) or 0 for r in runs))
    ev = dict(property_id=prop, tier=tier, seed=int(seed), level="exploration", coverage=cov, assumptions=assumptions,
              wall_s=round(wall, 2), violations=len(unknown_viols))
    with open(os.path.join(evdir, prop + ".json"), "w") as f:
        json.dump(ev, f, indent=1)
    # verdict
    for (vp, hk), k in known_hits.items():
        print("KNOWN-FINDING: property=%s %s [%s]" % (vp, k.get("what", ""), hk))
    if unknown_viols:
        wdir = os.path.join(os.environ.get("VP_WITNESS_DIR", os.path.join(VERIF, "witness")), prop)
        os.makedirs(wdir, exist_ok=True)
        seen = set()
        n = 0
        for (vp, key, detail, r) in unknown_viols:
            if (vp, key) in seen:
                continue
            seen.add((vp, key))
            wp = os.path.join(wdir, "%s-%s-%d.json" % (tier, seed, n))
            n += 1
            with open(wp, "w") as f:
                json.dump(dict(check=prop, attributed_property=vp, key=key, detail=detail, run=r.describe(), rc=r.rc,
                               stderr_tail=r.stderr_tail[-4000:], result=r.result), f, indent=1)
            print("VIOLATION property=%s replay=%s (key=%s attributed=%s: %s)" % (prop, wp, key, vp, detail.splitlines()[0][:300] if detail else ""))
        return 1
    if failures:
        for r in failures:
            print("harness failure: %s rc=%s\n%s" % (r.describe(), r.rc, r.stderr_tail[-1500:]), file=sys.stderr)
        return 2
    if inconclusive:
        for r, why in inconclusive:
            print("inconclusive: %s: %s" % (r.describe(), why), file=sys.stderr)
        return 2
    if counters.get("rounds_aborted_no_progress", 0):
        print("inconclusive: %d round(s) were aborted because a thread made no progress for an absurdly long streak, and no oracle fired" % counters["rounds_aborted_no_progress"], file=sys.stderr)
        return 2
    if missing:
        print("inconclusive: the runs never observed the critical events %s (counters %s)" % (missing, {k: counters.get(k, 0) for k in missing}), file=sys.stderr)
        return 2
    log("%s %s: held on %d evaluations (%d distinct non-trivial), %d process runs, %.1fs" % (prop, tier, evaluations, distinct, len(runs), wall))
    return 0
