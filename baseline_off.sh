#!/bin/bash
# Guard-OFF baseline: the repository's own CMake/Ninja build and ctest, no FIBER_VERIF.
# Builds in a private scratch directory (removed afterwards), prints one line per test.
set -u
B=$(mktemp -d /tmp/vp_baseline.XXXXXX)
trap 'rm -rf "$B"' EXIT
cmake -G Ninja -S /repo -B "$B" -DCMAKE_BUILD_TYPE=RelWithDebInfo -DCMAKE_C_FLAGS=-Wno-error \
      -DFIBER_RUN_TESTS_WITH_BUILD=OFF >"$B/configure.log" 2>&1 || { cat "$B/configure.log"; exit 2; }
cmake --build "$B" -j16 >"$B/build.log" 2>&1 || { tail -50 "$B/build.log"; exit 2; }
if grep -q FIBER_VERIF "$B/compile_commands.json"; then echo "guard unexpectedly ON"; exit 2; fi
ctest --test-dir "$B" -j8 --timeout 900 --output-junit "$B/junit.xml" >"$B/ctest.log" 2>&1
rc=$?
if [ $rc -ne 0 ]; then
  # test_io binds the fixed TCP port 10000: another suite running on this machine makes it fail. Re-run failures once, serially.
  ctest --test-dir "$B" --rerun-failed --timeout 900 --output-junit "$B/junit2.xml" >"$B/ctest2.log" 2>&1
  grep -E "Test +#|tests passed|tests failed" "$B/ctest2.log" | sed 's/^/rerun: /'
fi
grep -E "Test +#|tests passed|tests failed" "$B/ctest.log"
# the pinned stable set excludes fibertest_test_semaphore (flaky in the baseline itself)
python3 - "$B/junit.xml" "$B/junit2.xml" <<'EOF'
import sys, json, xml.etree.ElementTree as ET
base = json.load(open('/root/.vp/BASELINE.json'))
stable = set(x.split('::')[0] for x in base['stable_pass'])
import os
res = {}
for path in sys.argv[1:]:
    if not os.path.exists(path):
        continue
    for tc in ET.parse(path).getroot().iter('testcase'):
        ok = tc.find('failure') is None and tc.find('error') is None and tc.get('status','run') != 'fail'
        res[tc.get('name')] = res.get(tc.get('name'), False) or ok
bad = [t for t in sorted(stable) if not res.get(t, False)]
print("stable tests: %d, passed: %d" % (len(stable), len(stable) - len(bad)))
if bad:
    print("FAILED/MISSING:", bad)
    sys.exit(1)
EOF
