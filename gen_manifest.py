#!/usr/bin/env python3
"""regenerates MANIFEST.json from the check registry (keeps it schema-valid)"""
import json, subprocess, sys, os
sys.path.insert(0, os.path.dirname(os.path.abspath(__file__)))
import checks
props = [json.loads(l) for l in open('/verif/properties.jsonl')]
hooks = subprocess.check_output(['git', '-C', '/repo', 'log', '--format=%h %s']).decode().splitlines()
hook_commits = [l.split()[0] for l in hooks if l.split(' ', 1)[1].startswith('verif hooks:')][::-1]
TEXT = {
 "C01": ("Seeded random programs over the whole API (8-120 fibers x 15-action menu) on 1-16 kernel threads under monitor/jitter/skew and targeted stalls at every switch/publication window; online ghost monitor (running-on map, pending wake-ups, reclaim rules) at every context switch, library asserts, ASan with heap stacks, logical quiescence.", "ghost monitor + delay injection + ASan/asserts"),
 "C02": ("Deque driven by one owner and up to 15 thieves (length 0-2, growth past 256, mixed) raw and under stalls inside pop/steal/grow, with exactly-once/no-loss/owner-mirror/empty/steal-order oracles; whole runtime: every switch consumes exactly one pending wake-up, pushes only by the queue owner, nothing queued at logical quiescence.", "stress + delay injection with conservation/ordering oracles; ghost pending-wake-up accounting"),
 "C03": ("Trials of 2-64 fibers x 1-3 mutexes with lock/trylock, yields and sleeps inside sections on 1-16 threads; occupancy and plain-payload oracles (TSan judges payload visibility), trylock never switches, stranded lockers via logical quiescence; stalls between announce and enqueue.", "occupancy/payload oracles + ghost + TSan payload rule"),
 "C04": ("Scenario trials S1-S7 (join, repeated tryjoin, detach, two joiners, join after detach, detach while joined, double detach) against completion in both orders with gated targets, 8 concurrent drivers, stalls at join_info publication; result/once/failure oracles, ghost reclaim rules, ASan.", "scenario enumeration with result oracles + ghost reclaim rules + ASan"),
 "C05": ("Credit ledger under the user mutex without predicate loops: every return from wait owns the mutex and consumes a credit of a signal/broadcast issued while it was registered; lost signals show as stranded waiters at logical quiescence; weak mode for signals outside the mutex.", "credit-ledger monitor + quiescence"),
 "C06": ("Holder and producer/consumer trials with initial values {0,1,2,7}: successes <= initial + posts begun at every success, trywait never switches, final value equation, stranded waiters at quiescence; stalls at the deferred MPMC push.", "counting monitor + quiescence"),
 "C07": ("Reader/writer mixes 5-50% writers with try variants: writer-alone and shared-reader occupancy, data stable during read sections, try variants never switch, state word 0 at the end, stranded waiters at quiescence.", "occupancy monitor + quiescence"),
 "C08": ("Self-describing byte streams and datagrams through all read/write variants over socketpairs, pipes and loopback TCP with shrunken buffers; non-blocking modes, invalid descriptors (differential against libc entry points), close-while-blocked, several acceptors/receivers, dead port; ASan with and without NDEBUG.", "stream/datagram oracles, in-process differential vs libc, ASan"),
 "C09": ("Sleeps through all APIs and durations, same-deadline cohorts exiting at once, CPU-bound phases before sleeping, every thread busy yielding; monotonic elapsed >= requested, one registration and one wake-up per call (ghost), ticker progress, ASan on sleeper nodes.", "lower-bound timing oracle + ghost exactly-once + ASan"),
 "C10": ("Forever-yielders, victims that must run L times (L alternates 500/20000), polling loops, blockers and creators on 1 and N threads; online bound on how often a queued fiber is bypassed, independent of L.", "ghost bypass counter (online bound)"),
 "C11": ("Bounded, unbounded, single-producer and multi channels plus raw signal ping-pong: unique ids, per-sender order, loss/duplicate/phantom, capacity lower bound, payload checksums on plain memory (TSan), stranded peers at quiescence; stalls at signal registration and slot publication.", "message-id oracles + capacity bound + quiescence + TSan payload rule"),
 "C12": ("Counts {1,2,3,4,7,16,64} reused back-to-back for hundreds of rounds: per-round arrival counter equals count on return, one serial fiber per round, everybody returns; stalls between arrival and enqueue.", "per-round arrival oracle + quiescence"),
 "C13": ("Stamped histories of 2-16 threads with seeded role splits, hazard-GC nodes freed (ASan) or poisoned and recycled; phantom/duplicate/loss/real-time FIFO/illegal-empty rules; stalls before the head CAS, between tail swap and link, and in the hazard publish/release windows.", "history checker (definite-violation rules) + ASan"),
 "C14": ("Direct API harness: readers publish/validate/hold 1..K protections, writers unlink and retire, late-joining records, shuffled addresses; ghost protection counts and canaries at the GC callback, bounded garbage after every retirement, thresholds, reclamation after threshold further retirements; MPMC FIFO under ASan as the structure built on it.", "ghost protection counts + bounded-garbage assertions + ASan"),
 "C15": ("MPSC/SPSC/relaxed-MPSC histories with 1-15 producers and node recycling: exactly-once, per-producer order, real-time FIFO for the strict queues, illegal-empty rule; stalls between tail swap and link.", "history checker + ASan"),
 "C16": ("Capacities 2-64, 1-15 pushers/poppers, sequential prefix, exactly-once, real-time FIFO, occupancy bound, exact rule for isolated failures; stalls between index claim and slot write/clear.", "history checker"),
 "C17": ("All threads push, whoever is told to start works until EMPTY, no harness drain: exactly-once hand-out, no stranded item, EMPTY legality, disjoint worker sessions; stalls between count and enqueue and inside the retire step.", "session/hand-out history checker"),
 "C18": ("Fibers on 2-16 threads never yielding while holding: occupancy, consecutive now-serving values across the 2^32 wrap, ticket == now-serving on entry, trylock neither spins nor switches, logical deadlock detection, TSan payload.", "occupancy/ticket-order monitor + TSan payload rule"),
 "C19": ("Assembly shim plants random callee-saved registers around the real fiber_context_swap and compares them, rsp and a stack canary on resumption; entry stub checks alignment/argument/private stack of fresh contexts; random switch graphs, second kernel thread, matrix {asm,ucontext} x {mmap,malloc,split}, mmap/munmap interposition, ASan.", "register/stack oracle via assembly shim + allocation interposition + ASan"),
 "C20": ("LIFO with immediate node reuse and ghost owner words, dist FIFO with node hand-back, flushable stack, all with stalls before the double-word CAS; multi-signal exact ping-pong and storm modes with waits <= raises and wake accounting.", "history checker + ghost owner words; counting monitor for multi-signal"),
}
NOTE = "gcc 12 / x86-64 Linux; held-on-observed executions only (window-hit and event counters are published in the evidence file); harness and hook layer are trusted; wall clock is never a verdict (watchdog => inconclusive)"
m = {"version": 1,
     "setup_cmd": "python3 /verif/setup.py",
     "hooks": {"guard": "FIBER_VERIF",
               "enable": "every check compiles /repo/src/*.c and the harness with -DFIBER_VERIF in a private temp dir (gcc); points are FIBER_VERIF_POINT() lines declared in include/fiber_verif.h; a NULL hook pointer means inert (no fence added)",
               "baseline_off_cmd": "/verif/baseline_off.sh", "source_commits": hook_commits, "add_only": True},
     "engines": [{"name": "run_check", "path": "/verif/run_check.py", "serves_properties": sorted(checks.CHECKS.keys()),
                  "kind_free_text": "builds variants (mon/dbg/asan/asan_ndebug/tsan/pinned/ctx matrix) from /repo's working tree, runs seeded harness processes under perturbation modes (monitor, jitter, targeted stall, priority skew, raw), merges monitor results into a three-valued verdict"},
                 {"name": "mutate", "path": "/verif/mutations/mutate.py", "serves_properties": sorted(checks.CHECKS.keys()),
                  "kind_free_text": "applies catalogue mutants / seeded patches to a scratch copy of /repo and runs a check against it (validation of the monitors, not a check itself)"}],
     "checks": [], "not_applicable": [],
     "notes": "All checks: python3 /verif/run_check.py <Cxx> --tier quick|thorough; honours VERIF_SEED; exit 0 held / 1 violation / 2 inconclusive. Known findings: /verif/known_findings.json. Design and kill matrix: /verif/DESIGN.md."}
for p in props:
    pid = p["id"]
    if pid in checks.CHECKS:
        text, tech = TEXT[pid]
        m["checks"].append({"property_id": pid, "quick_cmd": "python3 /verif/run_check.py %s --tier quick" % pid,
                            "thorough_cmd": "python3 /verif/run_check.py %s --tier thorough" % pid,
                            "evidence_file": "/verif/evidence/%s.json" % pid,
                            "replay_cmd_template": "python3 /verif/run_check.py %s --replay {path}" % pid, "engine": "run_check",
                            "level_claimed": {"category": "exploration", "text": text + " Verdict: held on the executions produced, never 'verified'.", "design_ref": "DESIGN.md §4 " + pid},
                            "level_note": NOTE, "technique": "runtime monitoring: " + tech})
    else:
        m["not_applicable"].append({"property_id": pid, "reason": "no check registered yet"})
json.dump(m, open('/verif/MANIFEST.json', 'w'), indent=1)
print("checks:", len(m["checks"]), "not_applicable:", len(m["not_applicable"]), "hook commits:", hook_commits)
