#!/usr/bin/env python3
"""checker self-tests on synthetic bad histories (run by setup_cmd): a vacuous oracle cannot pass silently"""
import os, shutil, subprocess, sys, tempfile
sys.path.insert(0, os.path.dirname(os.path.abspath(__file__)))
import vplib, checks
tmp = tempfile.mkdtemp(prefix="vp_selftest_")
try:
    b = vplib.Builder(tmp)
    exe = b.harness("mon", "h_ds", checks.BINARIES["h_ds"][1])
    p = subprocess.run([exe, "sub=selftest"], capture_output=True, text=True, timeout=120)
    sys.stdout.write(p.stdout)
    if p.returncode != 0:
        sys.stdout.write(p.stderr[-2000:])
        print("checker self-test FAILED")
        sys.exit(1)
    print("setup ok: toolchain present, history checkers flag every synthetic bad history and accept the legal ones")
finally:
    shutil.rmtree(tmp, ignore_errors=True)
